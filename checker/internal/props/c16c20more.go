package props

import (
	"strings"
	"reflect"
	"fmt"
	"go/token"
	"go/types"
	"sort"

	"gedverif/internal/load"
	"gedverif/internal/oblig"
	"gedverif/internal/su"

	"golang.org/x/tools/go/ssa"
)

// c16Stateless (R16.h): an Evaluate method does not store into its own
// receiver. The function expressions are singletons registered once in
// q.Functions and every parsed expression is shared by all evaluations of the
// query, so state kept in the receiver makes a result depend on what was
// evaluated before.
func c16Stateless(p *load.Prog, r *oblig.Run) {
	r.Rule("R16.h", "no Evaluate method of the query language stores into its receiver (expressions are shared between evaluations and queries)", 15)
	var fns []*ssa.Function
	for _, fn := range p.Repo {
		if fn.Name() == "Evaluate" && pkgPathOf(fn) == load.PkgQ && fn.Synthetic == "" && len(fn.Blocks) > 0 && fn.Signature.Recv() != nil {
			fns = append(fns, fn)
		}
	}
	sort.Slice(fns, func(i, j int) bool { return fns[i].String() < fns[j].String() })
	for _, fn := range fns {
		recv := fn.Params[0]
		// expressions and statements are evaluated under an engine; the engine itself is the state of one evaluation
		underEngine := false
		for _, prm := range fn.Params[1:] {
			if n := load.NamedOf(prm.Type()); n != nil && n.Obj().Name() == "Engine" {
				underEngine = true
			}
		}
		if !underEngine {
			continue
		}
		o := r.Add("R16.h", load.FuncName(fn), p.Pos(fn.Pos()), "stores into the receiver")
		if _, isPtr := recv.Type().Underlying().(*types.Pointer); !isPtr {
			o.OK("value receiver")
			continue
		}
		// addresses derived from the receiver: field addresses, element addresses of its fields
		derived := map[ssa.Value]bool{recv: true}
		changed := true
		for changed {
			changed = false
			for _, b := range fn.Blocks {
				for _, ins := range b.Instrs {
					v, ok := ins.(ssa.Value)
					if !ok || derived[v] {
						continue
					}
					switch x := ins.(type) {
					case *ssa.FieldAddr:
						if derived[x.X] {
							derived[v], changed = true, true
						}
					case *ssa.IndexAddr:
						if derived[x.X] {
							derived[v], changed = true, true
						}
					case *ssa.UnOp:
						// a slice/map/pointer loaded from a receiver field still denotes shared storage
						if x.Op == token.MUL && derived[x.X] {
							switch x.Type().Underlying().(type) {
							case *types.Slice, *types.Map, *types.Pointer:
								derived[v], changed = true, true
							}
						}
					case *ssa.Phi:
						for _, e := range x.Edges {
							if derived[e] {
								derived[v], changed = true, true
							}
						}
					}
				}
			}
		}
		bad := ""
		for _, b := range fn.Blocks {
			for _, ins := range b.Instrs {
				switch x := ins.(type) {
				case *ssa.Store:
					if x.Addr != ssa.Value(recv) && derived[x.Addr] {
						bad = p.Pos(x.Pos())
					}
				case *ssa.MapUpdate:
					if derived[x.Map] {
						bad = p.Pos(x.Pos())
					}
				}
			}
		}
		if bad != "" {
			o.Fail("Evaluate stores into its receiver at " + bad + ": the expression value is shared (function expressions are registered once for the whole process, parsed expressions once per query), so a later evaluation sees what an earlier one left behind and the same query no longer always returns the same result")
		} else {
			o.OK("no store into the receiver")
		}
	}
}

// c20Spouses (R20.i): in marriedOutOfRange the husband's and the wife's
// marriage-age tests are independent: whether one spouse is known does not
// decide whether the other one is tested.
func c20Spouses(p *load.Prog, r *oblig.Run) {
	r.Rule("R20.i", "the marriage-age test of one spouse does not depend on whether the other spouse is known", 1)
	fn := p.Method(load.PkgRoot, "FamilyNode", "marriedOutOfRange")
	app := p.Method(load.PkgRoot, "FamilyNode", "appendMarriedOutOfRange")
	if fn == nil || app == nil {
		r.Add("R20.i", "anchor", "-", "anchor").Unknown("FamilyNode.marriedOutOfRange / appendMarriedOutOfRange not found")
		return
	}
	spouseIdx := -1
	for i, prm := range app.Params {
		if prm.Name() == "spouse" {
			spouseIdx = i
		}
	}
	o := r.Add("R20.i", "spouse tests in marriedOutOfRange", p.Pos(fn.Pos()), "independence of the two spouses' tests")
	if spouseIdx < 0 {
		o.Unknown("appendMarriedOutOfRange has no spouse parameter")
		return
	}
	// spouseParamOf: the parameter of h that reaches the spouse parameter of appendMarriedOutOfRange (h itself, or a
	// helper that hands its own parameter on), or -1
	var spouseParamOf func(h *ssa.Function, depth int) int
	spouseParamOf = func(h *ssa.Function, depth int) int {
		if h == app {
			return spouseIdx
		}
		if depth > 2 || h == nil || len(h.Blocks) == 0 || !p.IsRepoFunc(h) {
			return -1
		}
		for _, c := range su.Calls(h) {
			g := c.Common().StaticCallee()
			j := spouseParamOf(g, depth+1)
			if j < 0 || j >= len(c.Common().Args) {
				continue
			}
			for i, prm := range h.Params {
				if c.Common().Args[j] == ssa.Value(prm) {
					return i
				}
			}
		}
		return -1
	}
	type testSite struct {
		call   *ssa.Call
		spouse ssa.Value
	}
	var sites []testSite
	for _, c := range su.Calls(fn) {
		cv, ok := c.(*ssa.Call)
		if !ok {
			continue
		}
		if j := spouseParamOf(cv.Call.StaticCallee(), 0); j >= 0 && j < len(cv.Call.Args) {
			sites = append(sites, testSite{cv, cv.Call.Args[j]})
		}
	}
	if len(sites) < 2 {
		o.Fail(fmt.Sprintf("%d marriage-age test site(s): one of the spouses is no longer tested", len(sites)))
		return
	}
	hs := loopHeaders(fn)
	reach := func(a, b *ssa.BasicBlock) bool {
		if a == b {
			return true
		}
		for _, h := range hs {
			if !su.ReachableBlocksAvoiding(a, b, h) {
				return false
			}
		}
		return su.ReachableBlocks(a)[b]
	}
	bad := ""
	for j, sj := range sites {
		for i, si := range sites {
			if i == j {
				continue
			}
			other := si.spouse
			if other == sj.spouse {
				continue
			}
			// every nil test of the other spouse: both outcomes, or neither, lead to site j within the iteration
			if other.Referrers() == nil {
				continue
			}
			for _, ref := range *other.Referrers() {
				bo, ok := ref.(*ssa.BinOp)
				if !ok || (bo.Op != token.EQL && bo.Op != token.NEQ) {
					continue
				}
				if k, isK := bo.Y.(*ssa.Const); !isK || k.Value != nil {
					continue
				}
				for _, r2 := range *bo.Referrers() {
					iff, ok := r2.(*ssa.If)
					if !ok {
						continue
					}
					t, f := reach(iff.Block().Succs[0], sj.call.Block()), reach(iff.Block().Succs[1], sj.call.Block())
					if t != f {
						bad = fmt.Sprintf("the marriage-age test at %s is only reached on one side of the nil test of the other spouse at %s: when that spouse is missing from the family, this one's married-too-young/too-old warning is lost", p.Pos(sj.call.Pos()), p.Pos(bo.Pos()))
					}
				}
			}
		}
	}
	if bad != "" {
		o.Fail(bad)
	} else {
		o.OK(fmt.Sprintf("%d sites; no site depends on the nil test of the other spouse", len(sites)))
	}
}

// c20ValidRange (R20.h): DateRange.IsValid answers true only on paths on which
// both the start and the end were found not to be zero.
func c20ValidRange(p *load.Prog, r *oblig.Run) {
	r.Rule("R20.h", "a date range is valid only if both its start and its end were parsed (the unparsable-date warning and every date-based warning rely on it)", 1)
	fn := p.Method(load.PkgRoot, "DateRange", "IsValid")
	se := p.Method(load.PkgRoot, "DateRange", "StartAndEndDates")
	isZero := p.Method(load.PkgRoot, "Date", "IsZero")
	if fn == nil || se == nil || isZero == nil {
		r.Add("R20.h", "anchor", "-", "anchor").Unknown("DateRange.IsValid / StartAndEndDates / Date.IsZero not found")
		return
	}
	o := r.Add("R20.h", "DateRange.IsValid", p.Pos(fn.Pos()), "paths that answer true")
	var ends [2]ssa.Value
	for _, c := range su.CallsTo(fn, se) {
		for _, ref := range *c.Referrers() {
			if ex, ok := ref.(*ssa.Extract); ok && ex.Index < 2 {
				ends[ex.Index] = ex
			}
		}
	}
	if ends[0] == nil || ends[1] == nil {
		o.Unknown("IsValid does not take both ends from StartAndEndDates")
		return
	}
	// zeroTest: v is (a negation of) Date.IsZero(end k)
	zeroTest := func(v ssa.Value) (k int, neg bool, ok bool) {
		for {
			if u, isNot := v.(*ssa.UnOp); isNot && u.Op == token.NOT {
				v, neg = u.X, !neg
				continue
			}
			break
		}
		c, isCall := v.(*ssa.Call)
		if !isCall || c.Call.StaticCallee() != isZero || len(c.Call.Args) != 1 {
			return 0, false, false
		}
		for i := 0; i < 2; i++ {
			if c.Call.Args[0] == ends[i] {
				return i, neg, true
			}
		}
		return 0, false, false
	}
	paths, capped := simplePaths(fn.Blocks[0], map[*ssa.BasicBlock]bool{}, 200)
	if capped {
		o.Unknown("more than 200 paths")
		return
	}
	bad := ""
	n := 0
	for _, path := range paths {
		last := path[len(path)-1]
		ret, ok := last.Instrs[len(last.Instrs)-1].(*ssa.Return)
		if !ok || len(ret.Results) != 1 || !pathConstFeasible(path) {
			continue
		}
		n++
		nonzero := [2]bool{}
		for i := 0; i+1 < len(path); i++ {
			iff, ok := path[i].Instrs[len(path[i].Instrs)-1].(*ssa.If)
			if !ok {
				continue
			}
			if k, neg, ok := zeroTest(iff.Cond); ok {
				tookTrue := path[i+1] == path[i].Succs[0]
				// cond = IsZero xor neg ; IsZero false  <=>  cond == neg
				if tookTrue == neg {
					nonzero[k] = true
				}
			}
		}
		base, neg, ok := resolveFlag(ret.Results[0], path)
		if !ok {
			bad = "the answer on the path " + pathDesc(p, path) + " cannot be followed"
			break
		}
		if kc, isK := base.(*ssa.Const); isK {
			val, known := evalBoolOnPath(kc, path, len(path)-1)
			if known && (val != neg) && !(nonzero[0] && nonzero[1]) {
				bad = "IsValid answers true on the path " + pathDesc(p, path) + " although only " + fmt.Sprint(nonzero) + " of [start end] were found non-zero"
			}
			continue
		}
		if k, zneg, ok := zeroTest(base); ok {
			// result = IsZero(k) xor zneg xor neg ; result true with IsZero(k) false requires (zneg xor neg)
			if zneg != neg {
				nonzero[k] = true // the answer is true exactly when this end is not zero
				if !(nonzero[0] && nonzero[1]) {
					bad = "IsValid can answer true on the path " + pathDesc(p, path) + " without having looked at the " + []string{"start", "end"}[1-k] + " of the range: a range with one unparsable end counts as valid, its unparsable-date warning is dropped and the half-empty range reaches the other checks"
				}
			} else {
				bad = "IsValid answers true on the path " + pathDesc(p, path) + " when the " + []string{"start", "end"}[k] + " IS zero"
			}
			continue
		}
		bad = "the answer on the path " + pathDesc(p, path) + " is not built from the two zero tests"
	}
	switch {
	case bad != "":
		o.Fail(bad)
	case n == 0:
		o.Unknown("no path to a return")
	default:
		o.OK(fmt.Sprintf("%d paths; true only with both ends non-zero", n))
	}
}

// c16NoIdentity (R16.k): which expressions may hand their input back
// unchanged. An accessor, a function call or a constructor that answers with
// the list it was given instead of the list it computes (the "nothing to do"
// shortcut for an empty list) yields a value of the wrong type: `.Name` of an
// empty list of individuals is an empty list of names. Reviewed reference: only
// the expressions listed below return their input parameter itself.
func c16NoIdentity(p *load.Prog, r *oblig.Run) {
	r.Rule("R16.k", "an Evaluate method hands its input back unchanged only where the documented semantics is the identity (reviewed list)", 12)
	// reviewed on the pinned tree: expression type -> why the input itself may be the result
	allowed := map[string]string{
		"Statement": "a pipe with no stage is the identity (the loop over the stages does not run)",
	}
	var fns []*ssa.Function
	for _, fn := range p.Repo {
		if fn.Name() == "Evaluate" && pkgPathOf(fn) == load.PkgQ && fn.Synthetic == "" && len(fn.Blocks) > 0 && fn.Signature.Recv() != nil {
			fns = append(fns, fn)
		}
	}
	sort.Slice(fns, func(i, j int) bool { return fns[i].String() < fns[j].String() })
	for _, fn := range fns {
		var input *ssa.Parameter
		for _, prm := range fn.Params[1:] {
			if _, isIface := prm.Type().Underlying().(*types.Interface); isIface && prm.Name() == "input" {
				input = prm
			}
		}
		if input == nil {
			continue
		}
		recvName := ""
		if n := load.NamedOf(fn.Signature.Recv().Type()); n != nil {
			recvName = n.Obj().Name()
		}
		o := r.Add("R16.k", load.FuncName(fn), p.Pos(fn.Pos()), "returns of the input parameter itself")
		where := ""
		for _, b := range fn.Blocks {
			ret, ok := b.Instrs[len(b.Instrs)-1].(*ssa.Return)
			if !ok || len(ret.Results) == 0 {
				continue
			}
			seen := map[ssa.Value]bool{}
			var isInput func(v ssa.Value) bool
			isInput = func(v ssa.Value) bool {
				if seen[v] {
					return false
				}
				seen[v] = true
				switch x := v.(type) {
				case *ssa.Parameter:
					return x == input
				case *ssa.Phi:
					for _, e := range x.Edges {
						if isInput(e) {
							return true
						}
					}
				case *ssa.UnOp:
					// the parameter spilled to memory (assigned later): the initial store only
					if al, isAl := x.X.(*ssa.Alloc); isAl && x.Op == token.MUL {
						n := 0
						var only ssa.Value
						for _, ref := range *al.Referrers() {
							if st, isSt := ref.(*ssa.Store); isSt && st.Addr == ssa.Value(al) {
								n++
								only = st.Val
							}
						}
						return n == 1 && isInput(only)
					}
				}
				return false
			}
			if isInput(ret.Results[0]) {
				where = p.Pos(ret.Pos())
			}
		}
		why, ok := allowed[recvName]
		switch {
		case where == "":
			o.OK("never returns its input itself")
		case ok:
			o.OK("returns its input: " + why)
		default:
			o.Fail(load.FuncName(fn) + " hands back the input it was given (return at " + where + ") where it has to answer with the value it computes: for the inputs that take this path (an empty list, a nil slice) the result has the type and content of the input, not of the documented result (an accessor applied to an empty list of individuals gives an empty list of individuals instead of an empty list of names)")
		}
	}
}

// c16NilResults (R16.l): where the query functions answer with the untyped nil. `nil` is a value of the language
// (Length of it is 1, an accessor of it is nil, a pipe hands it on), so a function that answers nil for one more
// class of inputs - an empty list that happens to be a nil slice, a stage in the middle of a pipe - changes what
// the query computes. Every `return nil, nil` of an Evaluate method must be reached only on paths that established
// one of the reviewed conditions of that method (facts on every path, edge cut over the CFG; conditions normalised).
// LengthExpr additionally: the only non-constant answer is Len() under Kind()==Slice and the only constant one is 1.
func c16NilResults(p *load.Prog, r *oblig.Run) {
	r.Rule("R16.l", "an Evaluate method answers (nil, nil) only under the reviewed condition of that function; Length answers Len() only for slices and 1 otherwise", 8)
	kindSlice := fmt.Sprintf("%d", int(reflect.Slice))
	// reviewed on the pinned tree: method -> atoms (with truth value) one of which must hold on every path to a nil answer
	type want struct {
		atom string
		val  bool
	}
	in := "Value.Kind(ValueOf(p2))"
	allowed := map[string][]want{
		"AccessorExpr":     {{"nil==p2", true}},
		"CombineExpr":      {{"0==len(p3)", true}},
		"FirstExpr":        {{"nil==p2", true}, {"Value.IsNil(", true}},
		"LastExpr":         {{"nil==p2", true}, {"Value.IsNil(", true}},
		"OnlyExpr":         {{kindSlice + "==" + in, false}},
		"QuestionMarkExpr": {{"*", true}},
	}
	var fns []*ssa.Function
	for _, fn := range p.Repo {
		if fn.Name() == "Evaluate" && pkgPathOf(fn) == load.PkgQ && fn.Synthetic == "" && len(fn.Blocks) > 0 && fn.Signature.Recv() != nil && fn.Signature.Results().Len() == 2 {
			fns = append(fns, fn)
		}
	}
	sort.Slice(fns, func(i, j int) bool { return fns[i].String() < fns[j].String() })
	isNilConst := func(v ssa.Value) bool {
		k, ok := v.(*ssa.Const)
		return ok && k.Value == nil
	}
	for _, fn := range fns {
		recvName := ""
		if n := load.NamedOf(fn.Signature.Recv().Type()); n != nil {
			recvName = n.Obj().Name()
		}
		env := &descEnv{p: p, params: map[*ssa.Parameter]string{}, noInline: true}
		ord := 0
		for _, b := range fn.Blocks {
			ret, ok := b.Instrs[len(b.Instrs)-1].(*ssa.Return)
			if !ok || len(ret.Results) != 2 {
				continue
			}
			// the pair (nil, nil), also when it arrives through a phi edge
			type cand struct {
				blk *ssa.BasicBlock
				via *ssa.BasicBlock
			}
			var cands []cand
			switch {
			case isNilConst(ret.Results[0]) && isNilConst(ret.Results[1]):
				cands = append(cands, cand{b, nil})
			default:
				ph0, isPh0 := ret.Results[0].(*ssa.Phi)
				if isPh0 && ph0.Block() == b {
					for i, e := range ph0.Edges {
						errNil := isNilConst(ret.Results[1])
						if ph1, isPh1 := ret.Results[1].(*ssa.Phi); isPh1 && ph1.Block() == b {
							errNil = isNilConst(ph1.Edges[i])
						}
						if isNilConst(e) && errNil {
							cands = append(cands, cand{b.Preds[i], b})
						}
					}
				}
			}
			for _, c := range cands {
				ord++
				o := r.Add("R16.l", fmt.Sprintf("nil answer #%d of %s", ord, load.FuncName(fn)), p.Pos(ret.Pos()), "condition of the untyped nil answer")
				ws, known := allowed[recvName]
				if !known {
					var have []string
					for _, f := range env.blockFacts(c.blk, 0) {
						have = append(have, f.String())
					}
					o.Fail(load.FuncName(fn)+" answers with the untyped nil (no error) although the documented semantics of this expression has no nil answer: the rest of the pipe then works on nil (Length gives 1, accessors give nil) instead of the value the expression computes", "facts on every path: "+strings.Join(have, " ; "))
					continue
				}
				match := func(f cfact) bool {
					for _, w := range ws {
						if w.atom == "*" {
							return true
						}
						if f.val == w.val && (f.atom == w.atom || (strings.HasSuffix(w.atom, "(") && strings.HasPrefix(f.atom, w.atom))) {
							return true
						}
					}
					return false
				}
				okc := ws[0].atom == "*" || env.holdsAny(c.blk, match)
				if !okc && c.via != nil {
					// the edge into the return block itself
					if iff, isIf := c.blk.Instrs[len(c.blk.Instrs)-1].(*ssa.If); isIf {
						for _, f := range env.condFacts(iff.Cond, c.blk.Succs[0] == c.via, 0) {
							if match(f) {
								okc = true
							}
						}
					}
				}
				if okc {
					o.OK("reached only under the reviewed condition")
				} else {
					var have []string
					for _, f := range env.blockFacts(c.blk, 0) {
						have = append(have, f.String())
					}
					o.Fail(load.FuncName(fn)+" answers with the untyped nil on a path that did not establish the condition under which this function may do so: inputs of one more class (an empty list held as a nil slice, a nil produced in the middle of a pipe) now give nil instead of the documented result, and what follows in the pipe sees nil (Length = 1)", "facts on every path: "+strings.Join(have, " ; "))
				}
			}
		}
		if recvName == "LengthExpr" {
			o := r.Add("R16.l", "answers of LengthExpr.Evaluate", p.Pos(fn.Pos()), "Len() for slices, 1 otherwise")
			bad := ""
			n := 0
			for _, b := range fn.Blocks {
				ret, ok := b.Instrs[len(b.Instrs)-1].(*ssa.Return)
				if !ok || len(ret.Results) != 2 {
					continue
				}
				rv := ret.Results[0]
				if mi, isMI := rv.(*ssa.MakeInterface); isMI {
					rv = mi.X // `length := 1; if slice { length = in.Len() }; return length`
				}
				vals := []ssa.Value{rv}
				blks := []*ssa.BasicBlock{b}
				if ph, isPhi := rv.(*ssa.Phi); isPhi && ph.Block() == b {
					vals, blks = ph.Edges, b.Preds
				}
				for i, v := range vals {
					n++
					if mi, isMI := v.(*ssa.MakeInterface); isMI {
						v = mi.X
					}
					if k, isK := su.ConstInt(v); isK {
						if k != 1 {
							bad = fmt.Sprintf("a constant answer %d", k)
						}
						continue
					}
					d := env.desc(v, 0)
					if !strings.HasPrefix(d, "Value.Len(") {
						bad = "an answer that is neither 1 nor the Len() of the input (" + d + ")"
						continue
					}
					if !env.holdsAny(blks[i], func(f cfact) bool { return f.val && f.atom == kindSlice+"=="+in }) {
						bad = "Len() of an input that was not found to be a slice on every path (maps, arrays, strings, channels have a Len too)"
					}
				}
			}
			switch {
			case n == 0:
				o.Unknown("no return found")
			case bad != "":
				o.Fail("Length gives " + bad + ": the documented result is the number of elements of a list and 1 for anything else (an object built by the query is a map: its Length is 1, not its number of fields)")
			default:
				o.OK("Len() under Kind()==Slice, 1 otherwise")
			}
		}
	}
}

// c16MapLoops (R16.m): an expression applied to a list maps over its elements: the loop that evaluates the
// expression itself on each element (the recursive e.Evaluate(engine, in.Index(i)...)) appends exactly one result
// per element - every path through the loop body that goes on to the next element passes through an append of
// that element's result, and the element handed down is the one at the loop counter. A path that skips the append
// (a `continue` for nil results) makes the result shorter than the input and shifts every later entry.
func c16MapLoops(p *load.Prog, r *oblig.Run) {
	r.Rule("R16.m", "a loop that maps an expression over a list appends one result for every element (no path to the next element skips the append)", 3)
	// every method of package q (an Evaluate method or a helper the mapping loop was moved into)
	var fns []*ssa.Function
	for _, fn := range p.Repo {
		if pkgPathOf(fn) == load.PkgQ && fn.Synthetic == "" && len(fn.Blocks) > 0 && fn.Signature.Recv() != nil {
			fns = append(fns, fn)
		}
	}
	sort.Slice(fns, func(i, j int) bool { return fns[i].String() < fns[j].String() })
	n := 0
	for _, fn := range fns {
		for _, h := range loopHeaders(fn) {
			// the call, inside this loop, of the Evaluate method of the function's own receiver on an element of a list
			var rec *ssa.Call
			for _, b := range fn.Blocks {
				if b != h && !loopBlock(b, h) {
					continue
				}
				for _, ins := range b.Instrs {
					c, ok := ins.(*ssa.Call)
					if !ok {
						continue
					}
					cal := c.Call.StaticCallee()
					if cal == nil || cal.Name() != "Evaluate" || pkgPathOf(cal) != load.PkgQ || cal.Signature.Recv() == nil || len(c.Call.Args) < 3 {
						continue
					}
					if c.Call.Args[0] != ssa.Value(fn.Params[0]) {
						continue
					}
					env := &descEnv{p: p, params: map[*ssa.Parameter]string{}}
					if strings.Contains(env.desc(c.Call.Args[2], 0), "Value.Index(") {
						rec = c
					}
				}
			}
			if rec == nil {
				continue
			}
			n++
			o := r.Add("R16.m", "mapping loop of "+load.FuncName(fn), p.Pos(rec.Pos()), "one appended result per element")
			var body *ssa.BasicBlock
			for _, s := range h.Succs {
				if loopBlock(s, h) {
					body = s
				}
			}
			if body == nil {
				o.Unknown("loop body not found")
				continue
			}
			paths, capped := simplePaths(body, map[*ssa.BasicBlock]bool{h: true}, 500)
			if capped {
				o.Unknown("too many paths through the loop body")
				continue
			}
			bad := ""
			np := 0
			for _, path := range paths {
				if path[len(path)-1] != h {
					continue // leaves the function (error return)
				}
				np++
				appended := false
				for _, b := range path[:len(path)-1] {
					for _, ins := range b.Instrs {
						c, ok := ins.(*ssa.Call)
						if !ok {
							continue
						}
						if bi, isB := c.Call.Value.(*ssa.Builtin); isB && bi.Name() == "append" {
							appended = true
						}
						if cal := c.Call.StaticCallee(); cal != nil && cal.Pkg != nil && cal.Pkg.Pkg.Path() == "reflect" && (cal.Name() == "Append" || cal.Name() == "AppendSlice") {
							appended = true
						}
					}
				}
				if !appended {
					bad = "a path through the loop body " + pathDesc(p, path) + " reaches the next element without appending a result for this one"
				}
			}
			// the element handed down is the element at the loop counter
			elemOK := false
			if len(rec.Call.Args) >= 3 {
				env := &descEnv{p: p, params: map[*ssa.Parameter]string{}}
				d := env.desc(rec.Call.Args[2], 0)
				if strings.HasPrefix(d, "Value.Interface(Value.Index(") {
					elemOK = true
				}
			}
			switch {
			case np == 0:
				o.Unknown("no path through the loop body goes on to the next element")
			case bad != "":
				o.Fail(bad + ": the result list is shorter than the input list and the entries after the skipped element move up (an accessor applied to a list no longer maps over it element by element; '| Length' differs from the Go API)")
			case !elemOK:
				o.Fail("the value handed to the recursive evaluation is not the element of the input at the loop counter")
			default:
				o.OK(fmt.Sprintf("%d path(s) to the next element, each appends; the element evaluated is in.Index(i)", np))
			}
		}
	}
	if n == 0 {
		r.Add("R16.m", "mapping loops", "-", "anchor").Unknown("no Evaluate method maps itself over the elements of a list")
	}
}

// c16OperandSides (R16.n): the helpers that prepare the two operands of a comparison keep them apart. For every
// function of package q that takes two operands of one type and returns two values of one type (binaryStrings,
// binaryFloats), the first result depends on the first operand only and the second on the second only (value flow
// incl. the conditions that select a value); a helper that hands two prepared operands to a comparison function
// (compareStrings) hands them over in that order, each computed from its own operand.
func c16OperandSides(p *load.Prog, r *oblig.Run) {
	r.Rule("R16.n", "the helpers that prepare the operands of a comparison compute the left value from the left operand only and the right value from the right operand only", 3)
	// a helper that keeps the sides apart itself (checked as its own obligation): its i-th result stands for its i-th operand
	sided := func(h *ssa.Function) bool {
		if h == nil || pkgPathOf(h) != load.PkgQ || len(h.Blocks) == 0 || len(h.Params) < 2 || !types.Identical(h.Params[0].Type(), h.Params[1].Type()) {
			return false
		}
		res := h.Signature.Results()
		return res.Len() >= 2 && types.Identical(res.At(0).Type(), res.At(1).Type())
	}
	depsOf := func(v ssa.Value) map[*ssa.Parameter]bool {
		for i := 0; i < 6; i++ {
			ex, ok := v.(*ssa.Extract)
			if !ok || ex.Index > 1 {
				break
			}
			call, ok := ex.Tuple.(*ssa.Call)
			if !ok || !sided(call.Call.StaticCallee()) || len(call.Call.Args) < 2 {
				break
			}
			v = call.Call.Args[ex.Index]
		}
		out := map[*ssa.Parameter]bool{}
		paramDeps(v, out, map[ssa.Value]bool{})
		return out
	}
	only := func(d map[*ssa.Parameter]bool, prm *ssa.Parameter) bool {
		if !d[prm] {
			return false
		}
		for q := range d {
			if q != prm {
				if _, isFn := q.Type().Underlying().(*types.Signature); isFn {
					continue
				}
				return false
			}
		}
		return true
	}
	n := 0
	for _, fn := range p.Repo {
		if pkgPathOf(fn) != load.PkgQ || fn.Parent() != nil || fn.Synthetic != "" || len(fn.Blocks) == 0 || fn.Signature.Recv() != nil {
			continue
		}
		ps := fn.Params
		if len(ps) < 2 || !types.Identical(ps[0].Type(), ps[1].Type()) {
			continue
		}
		res := fn.Signature.Results()
		bad := ""
		applies := false
		if res.Len() >= 2 && types.Identical(res.At(0).Type(), res.At(1).Type()) {
			applies = true
			for _, b := range fn.Blocks {
				ret, ok := b.Instrs[len(b.Instrs)-1].(*ssa.Return)
				if !ok || len(ret.Results) < 2 {
					continue
				}
				if _, k0 := ret.Results[0].(*ssa.Const); k0 {
					if _, k1 := ret.Results[1].(*ssa.Const); k1 {
						continue
					}
				}
				if !only(depsOf(ret.Results[0]), ps[0]) {
					bad = "the first value returned at " + p.Pos(ret.Pos()) + " is not computed from the first operand alone"
				}
				if !only(depsOf(ret.Results[1]), ps[1]) {
					bad = "the second value returned at " + p.Pos(ret.Pos()) + " is not computed from the second operand alone"
				}
			}
		}
		// a comparison function handed in and called with two prepared operands
		for _, c := range su.Calls(fn) {
			cc := c.Common()
			if prm, ok := cc.Value.(*ssa.Parameter); ok && prm.Parent() == fn && len(cc.Args) == 2 {
				applies = true
				if !only(depsOf(cc.Args[0]), ps[0]) {
					bad = "the first operand handed to the comparison at " + p.Pos(c.Pos()) + " is not computed from the first operand alone"
				}
				if !only(depsOf(cc.Args[1]), ps[1]) {
					bad = "the second operand handed to the comparison at " + p.Pos(c.Pos()) + " is not computed from the second operand alone"
				}
			}
		}
		if !applies {
			continue
		}
		n++
		o := r.Add("R16.n", "operand sides of "+load.FuncName(fn), p.Pos(fn.Pos()), "left from left, right from right")
		if bad != "" {
			o.Fail(bad + ": a comparison then compares one side of the operator with itself or with the wrong text ('=' always true, '<' always false for such operands)")
		} else {
			o.OK("each prepared operand is computed from its own side")
		}
	}
	if n == 0 {
		r.Add("R16.n", "operand helpers", "-", "anchor").Unknown("no two-operand helper found in package q")
	}
}

// c16NoEarlyAnswer (R16.o): a loop of an Evaluate method that walks the elements of its input list does not hand
// back a result (with a nil error) from inside the loop - the answer of a list function is computed from every
// element. A defensive `return results, nil` for an odd element where `continue` was meant drops the rest of the
// list. Only returns whose error result is the nil constant count; error returns end the evaluation by design.
func c16NoEarlyAnswer(p *load.Prog, r *oblig.Run) {
	r.Rule("R16.o", "no Evaluate method answers (without an error) from inside a loop over the elements of its input", 4)
	var fns []*ssa.Function
	for _, fn := range p.Repo {
		if fn.Name() == "Evaluate" && pkgPathOf(fn) == load.PkgQ && fn.Synthetic == "" && len(fn.Blocks) > 0 && fn.Signature.Recv() != nil && fn.Signature.Results().Len() == 2 {
			fns = append(fns, fn)
		}
	}
	sort.Slice(fns, func(i, j int) bool { return fns[i].String() < fns[j].String() })
	for _, fn := range fns {
		hs := loopHeaders(fn)
		if len(hs) == 0 {
			continue
		}
		// loops bounded by the length of a list (reflect Len / len)
		var listLoops []*ssa.BasicBlock
		env := &descEnv{p: p, params: map[*ssa.Parameter]string{}, noInline: true}
		for _, h := range hs {
			if iff, ok := h.Instrs[len(h.Instrs)-1].(*ssa.If); ok {
				d := env.desc(iff.Cond, 0)
				if strings.Contains(d, "Value.Len(") || strings.Contains(d, "len(") {
					listLoops = append(listLoops, h)
				}
			}
		}
		if len(listLoops) == 0 {
			continue
		}
		o := r.Add("R16.o", "returns inside the list loops of "+load.FuncName(fn), p.Pos(fn.Pos()), "answers from inside a loop over the input")
		bad := ""
		for _, b := range fn.Blocks {
			ret, ok := b.Instrs[len(b.Instrs)-1].(*ssa.Return)
			if !ok || len(ret.Results) != 2 {
				continue
			}
			if k, isK := ret.Results[1].(*ssa.Const); !isK || k.Value != nil {
				continue // hands an error on
			}
			for _, h := range listLoops {
				// inside the loop: dominated by the successor of the header that belongs to the loop (a block that
				// returns never reaches the header again)
				for _, sx := range h.Succs {
					if loopBlock(sx, h) && len(sx.Preds) == 1 && (sx == b || sx.Dominates(b)) {
						bad = "the return at " + p.Pos(ret.Pos()) + " answers without an error from inside the loop over the list"
					}
				}
			}
		}
		if bad != "" {
			o.Fail(bad + ": the elements after the one that took this path are never looked at - the result of the list function is cut short")
		} else {
			o.OK("only error returns leave the loops over the input")
		}
	}
}

// c16OperandInput (R16.p): the two operands of a comparison are evaluated on the current item. In the methods of
// BinaryExpr (and unexported helpers they hand the work to) every call that evaluates an operand stored in the
// expression (a field of interface type Expression loaded from the receiver) receives the function's own input
// parameter, and stands where that input is known not to be a list: behind the false edge of
// `reflect.ValueOf(input).Kind() == reflect.Slice` (the list branch maps the whole comparison over the elements by
// recursion). An operand "hoisted" out of the element loop is evaluated on the whole list, and every element is then
// compared with the text of the mapped list instead of its own value.
func c16OperandInput(p *load.Prog, r *oblig.Run) {
	r.Rule("R16.p", "the operands of a comparison are evaluated on the current item: on the method's own input, and only where that input is not a list", 2)
	var be *types.Named
	if m := p.Method(load.PkgQ, "BinaryExpr", "Evaluate"); m != nil {
		be = load.NamedOf(m.Signature.Recv().Type())
	}
	if be == nil {
		r.Add("R16.p", "anchors", "-", "anchor").Unknown("type q.BinaryExpr not found")
		return
	}
	// notListAt: blk of fn is only reached over an edge on which ValueOf(par).Kind() != Slice
	var notListAt func(fn *ssa.Function, blk *ssa.BasicBlock, par *ssa.Parameter, depth int) bool
	notListAt = func(fn *ssa.Function, blk *ssa.BasicBlock, par *ssa.Parameter, depth int) bool {
		for _, b := range fn.Blocks {
			iff, ok := b.Instrs[len(b.Instrs)-1].(*ssa.If)
			if !ok {
				continue
			}
			bo, ok := iff.Cond.(*ssa.BinOp)
			if !ok || (bo.Op != token.EQL && bo.Op != token.NEQ) {
				continue
			}
			kc, ok := bo.X.(*ssa.Call)
			if !ok || !su.CalleeIs(&kc.Call, "reflect", "Kind") || len(kc.Call.Args) != 1 {
				continue
			}
			vo, ok := kc.Call.Args[0].(*ssa.Call)
			if !ok || !su.CalleeIs(&vo.Call, "reflect", "ValueOf") || vo.Call.Args[0] != ssa.Value(par) {
				continue
			}
			if kv, ok := su.ConstInt(bo.Y); !ok || kv != int64(reflect.Slice) {
				continue
			}
			sx := b.Succs[1]
			if bo.Op == token.NEQ {
				sx = b.Succs[0]
			}
			if len(sx.Preds) == 1 && (sx == blk || sx.Dominates(blk)) {
				return true
			}
		}
		// a helper: every caller hands over its own input parameter from such a place
		if depth >= 2 || fn.Object() == nil || fn.Object().Exported() {
			return false
		}
		idx := -1
		for i, q := range fn.Params {
			if q == par {
				idx = i
			}
		}
		n := 0
		for _, f := range p.Repo {
			for _, b := range f.Blocks {
				for _, ins := range b.Instrs {
					var ops []*ssa.Value
					for _, op := range ins.Operands(ops) {
						if op != nil && *op == ssa.Value(fn) {
							ci, ok := ins.(*ssa.Call)
							if !ok || ci.Call.StaticCallee() != fn || idx < 0 || idx >= len(ci.Call.Args) {
								return false
							}
							cp, ok := ci.Call.Args[idx].(*ssa.Parameter)
							if !ok || !notListAt(f, b, cp, depth+1) {
								return false
							}
							n++
						}
					}
				}
			}
		}
		return n > 0
	}
	n := 0
	for _, fn := range p.Repo {
		if pkgPathOf(fn) != load.PkgQ || fn.Synthetic != "" || len(fn.Blocks) == 0 {
			continue
		}
		for _, b := range fn.Blocks {
			for _, ins := range b.Instrs {
				ci, ok := ins.(ssa.CallInstruction)
				if !ok || !ci.Common().IsInvoke() || ci.Common().Method.Name() != "Evaluate" || len(ci.Common().Args) != 3 {
					continue
				}
				ld, ok := ci.Common().Value.(*ssa.UnOp)
				if !ok || ld.Op != token.MUL {
					continue
				}
				fa, ok := ld.X.(*ssa.FieldAddr)
				if !ok || load.NamedOf(fa.X.Type()) != be {
					continue
				}
				field := be.Underlying().(*types.Struct).Field(fa.Field).Name()
				n++
				o := r.Add("R16.p", "operand "+field+" evaluated in "+load.FuncName(fn), p.Pos(ins.Pos()), "input of the operand's evaluation")
				par, isPar := ci.Common().Args[1].(*ssa.Parameter)
				switch {
				case !isPar:
					o.Fail("the operand " + field + " is evaluated on " + ci.Common().Args[1].Name() + ", not on the input this function was given: the comparison no longer looks at the current item")
				case !notListAt(fn, b, par, 0):
					o.Fail("the operand "+field+" is evaluated on "+par.Name()+" at a place that is also reached when "+par.Name()+" is a list (no `reflect.ValueOf("+par.Name()+").Kind() == reflect.Slice` branch has been left behind): every element is then compared with the value of the whole list instead of its own",
						"documented: an operator applied to a list maps over its elements (q/doc.go); `.Individuals | .Name | .GivenName = .Surname` must compare each name with its own surname")
				default:
					o.OK("evaluated on the function's input " + par.Name() + " behind the not-a-list edge")
				}
			}
		}
	}
	if n == 0 {
		r.Add("R16.p", "anchors", "-", "anchor").Unknown("no evaluation of an operand stored in q.BinaryExpr found")
	}
}
