package props

import (
	"fmt"
	"go/token"
	"go/types"
	"sort"

	"gedverif/internal/load"
	"gedverif/internal/oblig"
	"gedverif/internal/su"

	"golang.org/x/tools/go/ssa"
)

// c16Stateless (R16.h): an Evaluate method does not store into its own
// receiver. The function expressions are singletons registered once in
// q.Functions and every parsed expression is shared by all evaluations of the
// query, so state kept in the receiver makes a result depend on what was
// evaluated before.
func c16Stateless(p *load.Prog, r *oblig.Run) {
	r.Rule("R16.h", "no Evaluate method of the query language stores into its receiver (expressions are shared between evaluations and queries)", 15)
	var fns []*ssa.Function
	for _, fn := range p.Repo {
		if fn.Name() == "Evaluate" && pkgPathOf(fn) == load.PkgQ && fn.Synthetic == "" && len(fn.Blocks) > 0 && fn.Signature.Recv() != nil {
			fns = append(fns, fn)
		}
	}
	sort.Slice(fns, func(i, j int) bool { return fns[i].String() < fns[j].String() })
	for _, fn := range fns {
		recv := fn.Params[0]
		// expressions and statements are evaluated under an engine; the engine itself is the state of one evaluation
		underEngine := false
		for _, prm := range fn.Params[1:] {
			if n := load.NamedOf(prm.Type()); n != nil && n.Obj().Name() == "Engine" {
				underEngine = true
			}
		}
		if !underEngine {
			continue
		}
		o := r.Add("R16.h", load.FuncName(fn), p.Pos(fn.Pos()), "stores into the receiver")
		if _, isPtr := recv.Type().Underlying().(*types.Pointer); !isPtr {
			o.OK("value receiver")
			continue
		}
		// addresses derived from the receiver: field addresses, element addresses of its fields
		derived := map[ssa.Value]bool{recv: true}
		changed := true
		for changed {
			changed = false
			for _, b := range fn.Blocks {
				for _, ins := range b.Instrs {
					v, ok := ins.(ssa.Value)
					if !ok || derived[v] {
						continue
					}
					switch x := ins.(type) {
					case *ssa.FieldAddr:
						if derived[x.X] {
							derived[v], changed = true, true
						}
					case *ssa.IndexAddr:
						if derived[x.X] {
							derived[v], changed = true, true
						}
					case *ssa.UnOp:
						// a slice/map/pointer loaded from a receiver field still denotes shared storage
						if x.Op == token.MUL && derived[x.X] {
							switch x.Type().Underlying().(type) {
							case *types.Slice, *types.Map, *types.Pointer:
								derived[v], changed = true, true
							}
						}
					case *ssa.Phi:
						for _, e := range x.Edges {
							if derived[e] {
								derived[v], changed = true, true
							}
						}
					}
				}
			}
		}
		bad := ""
		for _, b := range fn.Blocks {
			for _, ins := range b.Instrs {
				switch x := ins.(type) {
				case *ssa.Store:
					if x.Addr != ssa.Value(recv) && derived[x.Addr] {
						bad = p.Pos(x.Pos())
					}
				case *ssa.MapUpdate:
					if derived[x.Map] {
						bad = p.Pos(x.Pos())
					}
				}
			}
		}
		if bad != "" {
			o.Fail("Evaluate stores into its receiver at " + bad + ": the expression value is shared (function expressions are registered once for the whole process, parsed expressions once per query), so a later evaluation sees what an earlier one left behind and the same query no longer always returns the same result")
		} else {
			o.OK("no store into the receiver")
		}
	}
}

// c20Spouses (R20.i): in marriedOutOfRange the husband's and the wife's
// marriage-age tests are independent: whether one spouse is known does not
// decide whether the other one is tested.
func c20Spouses(p *load.Prog, r *oblig.Run) {
	r.Rule("R20.i", "the marriage-age test of one spouse does not depend on whether the other spouse is known", 1)
	fn := p.Method(load.PkgRoot, "FamilyNode", "marriedOutOfRange")
	app := p.Method(load.PkgRoot, "FamilyNode", "appendMarriedOutOfRange")
	if fn == nil || app == nil {
		r.Add("R20.i", "anchor", "-", "anchor").Unknown("FamilyNode.marriedOutOfRange / appendMarriedOutOfRange not found")
		return
	}
	spouseIdx := -1
	for i, prm := range app.Params {
		if prm.Name() == "spouse" {
			spouseIdx = i
		}
	}
	o := r.Add("R20.i", "spouse tests in marriedOutOfRange", p.Pos(fn.Pos()), "independence of the two spouses' tests")
	if spouseIdx < 0 {
		o.Unknown("appendMarriedOutOfRange has no spouse parameter")
		return
	}
	// spouseParamOf: the parameter of h that reaches the spouse parameter of appendMarriedOutOfRange (h itself, or a
	// helper that hands its own parameter on), or -1
	var spouseParamOf func(h *ssa.Function, depth int) int
	spouseParamOf = func(h *ssa.Function, depth int) int {
		if h == app {
			return spouseIdx
		}
		if depth > 2 || h == nil || len(h.Blocks) == 0 || !p.IsRepoFunc(h) {
			return -1
		}
		for _, c := range su.Calls(h) {
			g := c.Common().StaticCallee()
			j := spouseParamOf(g, depth+1)
			if j < 0 || j >= len(c.Common().Args) {
				continue
			}
			for i, prm := range h.Params {
				if c.Common().Args[j] == ssa.Value(prm) {
					return i
				}
			}
		}
		return -1
	}
	type testSite struct {
		call   *ssa.Call
		spouse ssa.Value
	}
	var sites []testSite
	for _, c := range su.Calls(fn) {
		cv, ok := c.(*ssa.Call)
		if !ok {
			continue
		}
		if j := spouseParamOf(cv.Call.StaticCallee(), 0); j >= 0 && j < len(cv.Call.Args) {
			sites = append(sites, testSite{cv, cv.Call.Args[j]})
		}
	}
	if len(sites) < 2 {
		o.Fail(fmt.Sprintf("%d marriage-age test site(s): one of the spouses is no longer tested", len(sites)))
		return
	}
	hs := loopHeaders(fn)
	reach := func(a, b *ssa.BasicBlock) bool {
		if a == b {
			return true
		}
		for _, h := range hs {
			if !su.ReachableBlocksAvoiding(a, b, h) {
				return false
			}
		}
		return su.ReachableBlocks(a)[b]
	}
	bad := ""
	for j, sj := range sites {
		for i, si := range sites {
			if i == j {
				continue
			}
			other := si.spouse
			if other == sj.spouse {
				continue
			}
			// every nil test of the other spouse: both outcomes, or neither, lead to site j within the iteration
			if other.Referrers() == nil {
				continue
			}
			for _, ref := range *other.Referrers() {
				bo, ok := ref.(*ssa.BinOp)
				if !ok || (bo.Op != token.EQL && bo.Op != token.NEQ) {
					continue
				}
				if k, isK := bo.Y.(*ssa.Const); !isK || k.Value != nil {
					continue
				}
				for _, r2 := range *bo.Referrers() {
					iff, ok := r2.(*ssa.If)
					if !ok {
						continue
					}
					t, f := reach(iff.Block().Succs[0], sj.call.Block()), reach(iff.Block().Succs[1], sj.call.Block())
					if t != f {
						bad = fmt.Sprintf("the marriage-age test at %s is only reached on one side of the nil test of the other spouse at %s: when that spouse is missing from the family, this one's married-too-young/too-old warning is lost", p.Pos(sj.call.Pos()), p.Pos(bo.Pos()))
					}
				}
			}
		}
	}
	if bad != "" {
		o.Fail(bad)
	} else {
		o.OK(fmt.Sprintf("%d sites; no site depends on the nil test of the other spouse", len(sites)))
	}
}

// c20ValidRange (R20.h): DateRange.IsValid answers true only on paths on which
// both the start and the end were found not to be zero.
func c20ValidRange(p *load.Prog, r *oblig.Run) {
	r.Rule("R20.h", "a date range is valid only if both its start and its end were parsed (the unparsable-date warning and every date-based warning rely on it)", 1)
	fn := p.Method(load.PkgRoot, "DateRange", "IsValid")
	se := p.Method(load.PkgRoot, "DateRange", "StartAndEndDates")
	isZero := p.Method(load.PkgRoot, "Date", "IsZero")
	if fn == nil || se == nil || isZero == nil {
		r.Add("R20.h", "anchor", "-", "anchor").Unknown("DateRange.IsValid / StartAndEndDates / Date.IsZero not found")
		return
	}
	o := r.Add("R20.h", "DateRange.IsValid", p.Pos(fn.Pos()), "paths that answer true")
	var ends [2]ssa.Value
	for _, c := range su.CallsTo(fn, se) {
		for _, ref := range *c.Referrers() {
			if ex, ok := ref.(*ssa.Extract); ok && ex.Index < 2 {
				ends[ex.Index] = ex
			}
		}
	}
	if ends[0] == nil || ends[1] == nil {
		o.Unknown("IsValid does not take both ends from StartAndEndDates")
		return
	}
	// zeroTest: v is (a negation of) Date.IsZero(end k)
	zeroTest := func(v ssa.Value) (k int, neg bool, ok bool) {
		for {
			if u, isNot := v.(*ssa.UnOp); isNot && u.Op == token.NOT {
				v, neg = u.X, !neg
				continue
			}
			break
		}
		c, isCall := v.(*ssa.Call)
		if !isCall || c.Call.StaticCallee() != isZero || len(c.Call.Args) != 1 {
			return 0, false, false
		}
		for i := 0; i < 2; i++ {
			if c.Call.Args[0] == ends[i] {
				return i, neg, true
			}
		}
		return 0, false, false
	}
	paths, capped := simplePaths(fn.Blocks[0], map[*ssa.BasicBlock]bool{}, 200)
	if capped {
		o.Unknown("more than 200 paths")
		return
	}
	bad := ""
	n := 0
	for _, path := range paths {
		last := path[len(path)-1]
		ret, ok := last.Instrs[len(last.Instrs)-1].(*ssa.Return)
		if !ok || len(ret.Results) != 1 || !pathConstFeasible(path) {
			continue
		}
		n++
		nonzero := [2]bool{}
		for i := 0; i+1 < len(path); i++ {
			iff, ok := path[i].Instrs[len(path[i].Instrs)-1].(*ssa.If)
			if !ok {
				continue
			}
			if k, neg, ok := zeroTest(iff.Cond); ok {
				tookTrue := path[i+1] == path[i].Succs[0]
				// cond = IsZero xor neg ; IsZero false  <=>  cond == neg
				if tookTrue == neg {
					nonzero[k] = true
				}
			}
		}
		base, neg, ok := resolveFlag(ret.Results[0], path)
		if !ok {
			bad = "the answer on the path " + pathDesc(p, path) + " cannot be followed"
			break
		}
		if kc, isK := base.(*ssa.Const); isK {
			val, known := evalBoolOnPath(kc, path, len(path)-1)
			if known && (val != neg) && !(nonzero[0] && nonzero[1]) {
				bad = "IsValid answers true on the path " + pathDesc(p, path) + " although only " + fmt.Sprint(nonzero) + " of [start end] were found non-zero"
			}
			continue
		}
		if k, zneg, ok := zeroTest(base); ok {
			// result = IsZero(k) xor zneg xor neg ; result true with IsZero(k) false requires (zneg xor neg)
			if zneg != neg {
				nonzero[k] = true // the answer is true exactly when this end is not zero
				if !(nonzero[0] && nonzero[1]) {
					bad = "IsValid can answer true on the path " + pathDesc(p, path) + " without having looked at the " + []string{"start", "end"}[1-k] + " of the range: a range with one unparsable end counts as valid, its unparsable-date warning is dropped and the half-empty range reaches the other checks"
				}
			} else {
				bad = "IsValid answers true on the path " + pathDesc(p, path) + " when the " + []string{"start", "end"}[k] + " IS zero"
			}
			continue
		}
		bad = "the answer on the path " + pathDesc(p, path) + " is not built from the two zero tests"
	}
	switch {
	case bad != "":
		o.Fail(bad)
	case n == 0:
		o.Unknown("no path to a return")
	default:
		o.OK(fmt.Sprintf("%d paths; true only with both ends non-zero", n))
	}
}

// c16NoIdentity (R16.k): which expressions may hand their input back
// unchanged. An accessor, a function call or a constructor that answers with
// the list it was given instead of the list it computes (the "nothing to do"
// shortcut for an empty list) yields a value of the wrong type: `.Name` of an
// empty list of individuals is an empty list of names. Reviewed reference: only
// the expressions listed below return their input parameter itself.
func c16NoIdentity(p *load.Prog, r *oblig.Run) {
	r.Rule("R16.k", "an Evaluate method hands its input back unchanged only where the documented semantics is the identity (reviewed list)", 12)
	// reviewed on the pinned tree: expression type -> why the input itself may be the result
	allowed := map[string]string{
		"Statement": "a pipe with no stage is the identity (the loop over the stages does not run)",
	}
	var fns []*ssa.Function
	for _, fn := range p.Repo {
		if fn.Name() == "Evaluate" && pkgPathOf(fn) == load.PkgQ && fn.Synthetic == "" && len(fn.Blocks) > 0 && fn.Signature.Recv() != nil {
			fns = append(fns, fn)
		}
	}
	sort.Slice(fns, func(i, j int) bool { return fns[i].String() < fns[j].String() })
	for _, fn := range fns {
		var input *ssa.Parameter
		for _, prm := range fn.Params[1:] {
			if _, isIface := prm.Type().Underlying().(*types.Interface); isIface && prm.Name() == "input" {
				input = prm
			}
		}
		if input == nil {
			continue
		}
		recvName := ""
		if n := load.NamedOf(fn.Signature.Recv().Type()); n != nil {
			recvName = n.Obj().Name()
		}
		o := r.Add("R16.k", load.FuncName(fn), p.Pos(fn.Pos()), "returns of the input parameter itself")
		where := ""
		for _, b := range fn.Blocks {
			ret, ok := b.Instrs[len(b.Instrs)-1].(*ssa.Return)
			if !ok || len(ret.Results) == 0 {
				continue
			}
			seen := map[ssa.Value]bool{}
			var isInput func(v ssa.Value) bool
			isInput = func(v ssa.Value) bool {
				if seen[v] {
					return false
				}
				seen[v] = true
				switch x := v.(type) {
				case *ssa.Parameter:
					return x == input
				case *ssa.Phi:
					for _, e := range x.Edges {
						if isInput(e) {
							return true
						}
					}
				case *ssa.UnOp:
					// the parameter spilled to memory (assigned later): the initial store only
					if al, isAl := x.X.(*ssa.Alloc); isAl && x.Op == token.MUL {
						n := 0
						var only ssa.Value
						for _, ref := range *al.Referrers() {
							if st, isSt := ref.(*ssa.Store); isSt && st.Addr == ssa.Value(al) {
								n++
								only = st.Val
							}
						}
						return n == 1 && isInput(only)
					}
				}
				return false
			}
			if isInput(ret.Results[0]) {
				where = p.Pos(ret.Pos())
			}
		}
		why, ok := allowed[recvName]
		switch {
		case where == "":
			o.OK("never returns its input itself")
		case ok:
			o.OK("returns its input: " + why)
		default:
			o.Fail(load.FuncName(fn) + " hands back the input it was given (return at " + where + ") where it has to answer with the value it computes: for the inputs that take this path (an empty list, a nil slice) the result has the type and content of the input, not of the documented result (an accessor applied to an empty list of individuals gives an empty list of individuals instead of an empty list of names)")
		}
	}
}
