package props

import (
	"strings"
	"regexp"
	"go/token"

	"gedverif/internal/cg"
	"gedverif/internal/e1"
	"gedverif/internal/load"
	"gedverif/internal/oblig"
	"gedverif/internal/su"

	"golang.org/x/tools/go/ssa"
)

func linTolerated(p *load.Prog) func(s *e1.Site) (string, bool) {
	nonneg := nonNegSummary(p)
	return func(s *e1.Site) (string, bool) {
		if s.Class == "P3" {
			if ok, atoms, cases := linInBounds(s.Instr, nonneg); ok {
				return "R-lin: in range by the dominating branch conditions (" + itoa(atoms) + " atoms, " + itoa(cases) + " assignments enumerated)", true
			}
		}
		return "", false
	}
}

func itoa(i int) string {
	if i == 0 {
		return "0"
	}
	s := ""
	neg := i < 0
	if neg {
		i = -i
	}
	for i > 0 {
		s = string(rune('0'+i%10)) + s
		i /= 10
	}
	if neg {
		s = "-" + s
	}
	return s
}

// C15: queries never crash.
func C15(p *load.Prog, r *oblig.Run) {
	r.Explanation = "May-panic site analysis (E1) from Parser.ParseString, Engine.Evaluate, the five Formatter.Write methods and the command's output function. " +
		"R-rec: a site is no obligation when every frame stack that reaches it contains a function that defers a recovering closure before the call (Engine.Evaluate, AccessorExpr.evaluateAccessor); " +
		"goroutines started below such a frame are not covered. Remaining sites (parser, tokenizer, formatters and what they reach through String/MarshalJSON/WriteHTMLTo) must be discharged by " +
		"R-consume, R-kind, R-reg, R-cast, R-sort, R-regex, R-lin or a reviewed table entry. R15.r: the only input-driven unbounded recursion (a variable that names itself) must be cut by a depth test on engine state."
	r.NotDecided = "termination of the tokenizer/parser loops, formatter output well-formedness, nil dereference beyond the nil-phi class, memory."
	r.Assumptions = e1Assumptions()
	var entries []*ssa.Function
	entries = append(entries, p.MustMethod(load.PkgQ, "Parser", "ParseString"), p.MustMethod(load.PkgQ, "Engine", "Evaluate"))
	for _, f := range []string{"JSONFormatter", "PrettyJSONFormatter", "CSVFormatter", "GEDCOMFormatter", "HTMLFormatter"} {
		entries = append(entries, p.MustMethod(load.PkgQ, f, "Write"))
	}
	if f := p.Func(load.PkgCmd, "output"); f != nil {
		entries = append(entries, f)
	}
	// the html formatter writes a result that is a component with its own WriteHTMLTo: the value arrives through
	// reflection (interface{} -> core.Component), which the call graph cannot resolve. Every WriteHTMLTo method of a
	// type of the library package is therefore an entry (today: gedcom.Warnings, the result of .Warnings).
	for _, fn := range p.Repo {
		if pkgPathOf(fn) == load.PkgRoot && fn.Name() == "WriteHTMLTo" && fn.Signature.Recv() != nil && fn.Synthetic == "" {
			entries = append(entries, fn)
		}
	}
	runE1(p, r, "R15", entries, linTolerated(p), 40)
	recoverObligations(p, r, "R15", entries, 1)

	c15Errors(p, r)
	c15Work(p, r)
	c15NilResults(p, r)
	// R15.r recursion guard
	r.Rule("R15.r", "evaluation of a variable is cut off by a depth test on engine state before it recurses into the variable's statement", 1)
	ve := p.Method(load.PkgQ, "VariableExpr", "Evaluate")
	se := p.Method(load.PkgQ, "Statement", "Evaluate")
	o := r.Add("R15.r", "VariableExpr.Evaluate -> Statement.Evaluate", "-", "depth guard on the variable recursion")
	if ve == nil || se == nil {
		o.Unknown("VariableExpr.Evaluate / Statement.Evaluate not found")
		return
	}
	o.Pos = p.Pos(ve.Pos())
	// is the cycle still there?
	g := cg.New(p, false)
	reach := g.ReachFrom([]cg.Target{{Fn: se}}, cg.Options{})
	if !reach.Funcs[ve] {
		o.OK("variables are no longer evaluated recursively through Statement.Evaluate")
		return
	}
	calls := su.CallsTo(ve, se)
	if len(calls) == 0 {
		o.Unknown("VariableExpr.Evaluate is on the cycle but does not call Statement.Evaluate directly")
		return
	}
	for _, c := range calls {
		// dominated by an If comparing a loaded field of a pointer-typed parameter with a limit, the call being on the side that is NOT the early exit,
		// and the same field is incremented in this function before the test.
		guarded := false
		for _, b := range ve.Blocks {
			iff, ok := b.Instrs[len(b.Instrs)-1].(*ssa.If)
			if !ok || !b.Dominates(c.Block()) {
				continue
			}
			bo, ok := iff.Cond.(*ssa.BinOp)
			if !ok {
				continue
			}
			var fa *ssa.FieldAddr
			for _, side := range []ssa.Value{bo.X, bo.Y} {
				if ld, ok := side.(*ssa.UnOp); ok && ld.Op == token.MUL {
					if f, ok := ld.X.(*ssa.FieldAddr); ok {
						if rootParam(f.X) != nil {
							fa = f
						}
					}
				}
			}
			if fa == nil {
				continue
			}
			// incremented before the test
			inc := false
			for _, b2 := range ve.Blocks {
				for _, ins := range b2.Instrs {
					st, ok := ins.(*ssa.Store)
					if !ok {
						continue
					}
					f2, ok := st.Addr.(*ssa.FieldAddr)
					if !ok || rootParam(f2.X) != rootParam(fa.X) || f2.Field != fa.Field {
						continue
					}
					if add, ok := st.Val.(*ssa.BinOp); ok && add.Op == token.ADD && su.Dominates(st, iff) {
						inc = true
					}
				}
			}
			// the exceeding side must not reach the call
			exceedSucc := -1
			switch bo.Op {
			case token.GTR, token.GEQ:
				exceedSucc = 0
			case token.LSS, token.LEQ:
				exceedSucc = 1
			}
			if _, isField := bo.Y.(*ssa.UnOp); isField && exceedSucc >= 0 {
				exceedSucc = 1 - exceedSucc // limit < depth form
			}
			if inc && exceedSucc >= 0 && !su.ReachableBlocks(b.Succs[exceedSucc])[c.Block()] {
				guarded = true
			}
		}
		if !guarded {
			// the same test behind a boolean helper, or written the other way round: facts on every path to the call
			env := &descEnv{p: p, params: map[*ssa.Parameter]string{}}
			fieldRe := regexp.MustCompile(`^p\d+\.(\w+)$`)
			field := ""
			within := env.holdsAny(c.Block(), func(f cfact) bool {
				i := strings.LastIndex(f.atom, "<")
				if i < 0 || strings.Contains(f.atom, "==") {
					return false
				}
				a, b := f.atom[:i], f.atom[i+1:]
				if m := fieldRe.FindStringSubmatch(b); m != nil && !f.val { // !(limit < depth)
					field = m[1]
					return true
				}
				if m := fieldRe.FindStringSubmatch(a); m != nil && f.val { // depth < limit
					field = m[1]
					return true
				}
				return false
			})
			if within {
				for _, b2 := range ve.Blocks {
					for _, ins := range b2.Instrs {
						st, ok := ins.(*ssa.Store)
						if !ok {
							continue
						}
						f2, ok := st.Addr.(*ssa.FieldAddr)
						if !ok || rootParam(f2.X) == nil || su.FieldName(f2) != field {
							continue
						}
						if add, ok := st.Val.(*ssa.BinOp); ok && add.Op == token.ADD && (st.Block() == c.Block() || st.Block().Dominates(c.Block())) {
							guarded = true
						}
					}
				}
			}
		}
		if guarded {
			o.OK("the recursive call is reached only while a counter on the engine, incremented on entry, is within its limit")
		} else {
			o.Fail("a variable that refers to itself ('X is X; X') recurses without bound: no depth/visited test on engine state dominates the call of Statement.Evaluate in VariableExpr.Evaluate; the resulting stack overflow is fatal and cannot be recovered")
		}
	}
}

// C14: no command crashes on a decodable file.
func C14(p *load.Prog, r *oblig.Run) {
	r.Explanation = "May-panic site analysis (E1) from the four command entry points (warnings, publish, diff, query) over everything they reach in the library, the publisher and the query engine, " +
		"including the goroutines they start (a recover in the spawning frame does not cover them). Each site must be discharged by a generic rule (R-reg kind registry, R-cast, R-sort, R-regex, R-consume, R-kind, R-lin, " +
		"R-wpanic: panic only with the error of a failed write to the caller's writer) or by a reviewed table entry; genuine defects that are not repaired are listed as known findings by site."
	r.NotDecided = "hangs and non-termination, nil dereference beyond the nil-phi class, memory exhaustion; the developer tool 'tune' is outside the property."
	r.Assumptions = e1Assumptions()
	var entries []*ssa.Function
	for _, n := range []string{"runWarningsCommand", "runPublishCommand", "runDiffCommand", "runQueryCommand"} {
		entries = append(entries, p.MustFunc(load.PkgCmd, n))
	}
	// the query command's html formatter writes component results through reflection (see C15)
	for _, fn := range p.Repo {
		if pkgPathOf(fn) == load.PkgRoot && fn.Name() == "WriteHTMLTo" && fn.Signature.Recv() != nil && fn.Synthetic == "" {
			entries = append(entries, fn)
		}
	}
	runE1(p, r, "R14", entries, linTolerated(p), 100)
	recoverObligations(p, r, "R14", entries, 1)
}

// rootParam: v is a parameter, or a load of a local that only ever holds a
// parameter (a parameter captured by a closure is spilled to such a local).
func rootParam(v ssa.Value) *ssa.Parameter {
	if p, ok := v.(*ssa.Parameter); ok {
		return p
	}
	ld, ok := v.(*ssa.UnOp)
	if !ok || ld.Op != token.MUL {
		return nil
	}
	al, ok := ld.X.(*ssa.Alloc)
	if !ok {
		return nil
	}
	var prm *ssa.Parameter
	for _, ref := range *al.Referrers() {
		if st, ok := ref.(*ssa.Store); ok && st.Addr == ssa.Value(al) {
			q, ok := st.Val.(*ssa.Parameter)
			if !ok || (prm != nil && q != prm) {
				return nil
			}
			prm = q
		}
	}
	return prm
}
