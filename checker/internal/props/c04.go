package props

import (
	"fmt"
	"go/constant"
	"go/token"
	"go/types"
	"regexp"
	"regexp/syntax"
	"sort"
	"strings"
	"time"

	"gedverif/internal/absint"
	"gedverif/internal/load"
	"gedverif/internal/oblig"
	"gedverif/internal/relang"
	"gedverif/internal/su"

	"golang.org/x/tools/go/ssa"
)

// regexpUsedIn finds the package-level regexp whose FindStringSubmatch result
// fn uses and folds its constant pattern.
func regexpUsedIn(p *load.Prog, fn *ssa.Function, method string) (pattern string, g *ssa.Global, call *ssa.Call, err error) {
	for _, b := range fn.Blocks {
		for _, ins := range b.Instrs {
			c, ok := ins.(*ssa.Call)
			if !ok {
				continue
			}
			cal := c.Call.StaticCallee()
			if cal == nil || cal.Pkg == nil || cal.Pkg.Pkg.Path() != "regexp" || cal.Name() != method {
				continue
			}
			ld, ok := c.Call.Args[0].(*ssa.UnOp)
			if !ok {
				return "", nil, c, fmt.Errorf("receiver of %s is not a package variable", method)
			}
			gg, ok := ld.X.(*ssa.Global)
			if !ok {
				return "", nil, c, fmt.Errorf("receiver of %s is not a package variable", method)
			}
			pat, e := absint.FoldGlobalRegexp(gg)
			if e != nil {
				return "", gg, c, e
			}
			if _, e := regexp.Compile(pat); e != nil {
				return "", gg, c, fmt.Errorf("pattern does not compile: %v", e)
			}
			return pat, gg, c, nil
		}
	}
	return "", nil, nil, fmt.Errorf("no call of regexp.%s in %s", method, fn)
}

var c04Documented = map[string][]string{
	"About":  {"abt", "abt.", "about", "c.", "ca", "ca.", "cca", "cca.", "circa"},
	"After":  {"aft", "aft.", "after"},
	"Before": {"bef", "bef.", "before"},
}

var c04Months = []string{"apr", "april", "aug", "august", "dec", "december", "feb", "february", "jan", "january", "jul", "july",
	"jun", "june", "mar", "march", "may", "nov", "november", "oct", "october", "sep", "september"}

func caseVariants(w string) []string {
	t := strings.ToUpper(w[:1]) + w[1:]
	m := w
	if len(w) > 1 { // mixed case: alternate
		b := []byte(w)
		for i := range b {
			if i%2 == 1 {
				b[i] = strings.ToUpper(string(b[i]))[0]
			}
		}
		m = string(b)
	}
	out := []string{w, strings.ToUpper(w), t}
	if m != w && m != t {
		out = append(out, m)
	}
	return out
}

// C04 decides the keyword/month/canonical-print table clauses of the date
// grammar.
func C04(p *load.Prog, r *oblig.Run) {
	defer c04PatternFirst(p, r)
	r.Explanation = "Static table agreement. The checker folds (constant-propagates through fmt.Sprintf/strings.Replace/regexp.QuoteMeta and helper functions) the constant patterns of the " +
		"regexps used by parseDateParts and NewDateRangeWithString, parses them with regexp/syntax, and decides: (R04.a) the language of the constraint capture group, enumerated from the regexp AST, " +
		"is exactly the documented keyword set in every letter case - in particular it contains no wildcard - and the constant-folded DateConstraintFromString maps every member to the class it is documented under; " +
		"(R04.p) the pattern, applied as a constant to the keyword x shape table, captures exactly keyword/day/month/year; (R04.b) the month table has exactly the 23 documented spellings with the right month; " +
		"(R04.c) the canonical print (DateConstraint.String, time.Month.String()[:3], the constant 'Bet. %s and %s' formats) is accepted by the same patterns and maps back to the same constraint; " +
		"(R04.r) the range pattern's between/and groups are exactly the documented words; (R04.m) the month lookup of parseDateParts is checked for an unknown word. " +
		"Go's regexp engine is applied only to the extracted constant pattern; no repository function is executed."
	r.NotDecided = "numeric fields (day/year digits), calendar validation of day/month combinations, trailing text, Date.Time bounds; that parseDateParts uses the captured groups at the right positions beyond the constraint group."
	r.Assumptions = []string{"regexp/syntax describes the language Go's regexp matches", "strings.ToLower/Split/Replace and fmt.Sprintf on constants behave as in the standard library (constant folding)"}
	r.Rule("R04.a", "constraint keyword group of the single-date pattern = documented keywords, each mapped to its documented constraint", 15)
	r.Rule("R04.p", "the single-date pattern captures keyword/day/month/year exactly on the keyword x case x shape table", 150)
	r.Rule("R04.b", "month table = the 23 documented spellings, each with its month", 23)
	r.Rule("R04.c", "canonical print re-parses: constraint words, 3-letter months and the range format are accepted and map back", 20)
	r.Rule("R04.r", "range pattern: between/and word groups are exactly the documented words", 7)
	// a valid date must not silently become the zero date: the zero-time rule of C05 applies to the parser as well
	c05ZeroTime(p, r)
	c04RangeOrder(p, r)
	r.Rule("R04.m", "the month-name lookup in parseDateParts handles a word that is not in the table", 1)
	r.Rule("R04.w", "a range is valid only if both of its ends are (DateRange.IsValid answers true only after both ends were found non-zero)", 1)
	c04RangeValid(p, r)
	r.Rule("R04.v", "the calendar validity check applies whenever a day was written: its branch tests the day capture group itself (not the parsed number)", 1)
	r.Rule("R04.q", "the range pattern splits 'between X and Y' into exactly X and Y for every keyword pair and every month spelling in either date", 500)
	r.Rule("R04.s", "DateRange.String and DateNode.String choose the single-date form by structural identity of the two ends (Date.Is)", 2)

	pk := p.ByPath[load.PkgRoot]
	parse := p.Func(load.PkgRoot, "parseDateParts")
	nrs := p.Func(load.PkgRoot, "NewDateRangeWithString")
	dcfs := p.Func(load.PkgRoot, "DateConstraintFromString")
	if parse == nil || nrs == nil || dcfs == nil {
		r.Add("R04.a", "anchors", "-", "anchor functions").Unknown("parseDateParts / NewDateRangeWithString / DateConstraintFromString not found")
		return
	}
	cons := map[string]int64{}
	consName := map[int64]string{}
	for _, n := range []string{"Exact", "About", "Before", "After"} {
		o, _ := pk.Types.Scope().Lookup("DateConstraint" + n).(*types.Const)
		if o == nil {
			r.Add("R04.a", "const "+n, "-", "constraint constant").Unknown("DateConstraint" + n + " not found")
			return
		}
		v, _ := constant.Int64Val(o.Val())
		cons[n] = v
		consName[v] = n
	}
	lookup := func(word string) (string, error) {
		m := &absint.Machine{Prim: absint.StringLib}
		v, err := m.Call(dcfs, []absint.Value{word})
		if err != nil {
			return "", err
		}
		iv, ok := v.(int64)
		if !ok {
			return "", fmt.Errorf("DateConstraintFromString folded to %v", v)
		}
		n, ok := consName[iv]
		if !ok {
			return fmt.Sprintf("value(%d)", iv), nil
		}
		return n, nil
	}

	pat, g, call, err := regexpUsedIn(p, parse, "FindStringSubmatch")
	if err != nil {
		r.Add("R04.a", "single-date pattern", "-", "pattern used by parseDateParts").Unknown(err.Error())
		return
	}
	gpos := p.Pos(g.Pos())
	r.Extra["date_pattern"] = pat
	re := regexp.MustCompile(pat)
	_ = call

	// Which group is the constraint? The one passed (by constant index) to DateConstraintFromString.
	cgroup := groupIndexPassedTo(parse, call, dcfs)
	if cgroup <= 0 {
		r.Add("R04.a", "constraint group", gpos, "constraint group index").Unknown("cannot resolve which capture group parseDateParts passes to DateConstraintFromString")
		return
	}
	r.Extra["constraint_group"] = cgroup
	sub, err := relang.Group(pat, cgroup)
	if err != nil {
		r.Add("R04.a", "constraint group", gpos, "constraint group").Unknown(err.Error())
		return
	}
	langSet, finite := relang.Language(sub, 5000)
	if !finite {
		r.Add("R04.a", "constraint group language", gpos, "language of the constraint group").Fail("the constraint group of the date pattern has an unbounded language: it captures words the keyword lookup cannot know")
	} else {
		docAll := map[string]string{}
		for cls, ws := range c04Documented {
			for _, w := range ws {
				docAll[w] = cls
			}
		}
		inLang := map[string]bool{}
		for _, w := range langSet {
			inLang[w] = true
			if w == "" {
				continue
			}
			if _, ok := docAll[w]; !ok {
				disp := strings.ReplaceAll(w, relang.Wild, "<any char>")
				r.Add("R04.a", "captured word "+disp, gpos, "word captured by the constraint group").Fail(
					fmt.Sprintf("the constraint group can capture %q, which is not a documented keyword; the lookup then silently yields an exact date (e.g. %q)", disp, strings.ReplaceAll(w, relang.Wild, " ")+"1900"))
			}
		}
		words := []string{}
		for w := range docAll {
			words = append(words, w)
		}
		sort.Strings(words)
		for _, w := range words {
			o := r.Add("R04.a", "keyword "+w, gpos, "documented keyword "+w+" ("+docAll[w]+")")
			if !inLang[w] && !wildMatch(langSet, w) {
				o.Fail("documented keyword " + w + " is not in the language of the constraint group")
				continue
			}
			bad := ""
			for _, v := range caseVariants(w) {
				got, err := lookup(v)
				if err != nil {
					o.Unknown("folding DateConstraintFromString(" + v + "): " + err.Error())
					bad = "-"
					break
				}
				if got != docAll[w] {
					bad = fmt.Sprintf("DateConstraintFromString(%q) folds to %s, documented %s", v, got, docAll[w])
					break
				}
			}
			if bad == "" {
				o.OK("in group language; lookup gives " + docAll[w] + " in every letter case")
			} else if bad != "-" {
				o.Fail(bad)
			}
		}
		if got, err := lookup(""); err != nil || got != "Exact" {
			r.Add("R04.a", "no keyword", gpos, "absent keyword").Fail(fmt.Sprintf("an absent keyword folds to %s (%v), documented Exact", got, err))
		} else {
			r.Add("R04.a", "no keyword", gpos, "absent keyword").OK("Exact")
		}
	}

	// R04.p covering table
	type shape struct{ day, month, year string }
	shapes := []shape{{"", "", "1900"}, {"", "Sep", "1900"}, {"3", "Sep", "1900"}, {"03", "september", "89"}, {"", "", "7"}, {"", "Jan", "66"}, {"31", "Dec", "900"}}
	kw := []string{""}
	kwClass := map[string]string{"": "Exact"}
	for cls, ws := range c04Documented {
		for _, w := range ws {
			kw = append(kw, w)
			kwClass[w] = cls
		}
	}
	sort.Strings(kw)
	for _, w := range kw {
		vars := []string{""}
		if w != "" {
			vars = caseVariants(w)
		}
		for _, v := range vars {
			for _, sh := range shapes {
				parts := []string{}
				for _, x := range []string{v, sh.day, sh.month, sh.year} {
					if x != "" {
						parts = append(parts, x)
					}
				}
				sentence := strings.Join(parts, " ")
				key := "sentence " + sentence
				o := r.Add("R04.p", key, gpos, "documented sentence "+sentence)
				m := re.FindStringSubmatch(sentence)
				if m == nil {
					o.Fail("the date pattern does not accept the documented sentence " + sentence)
					continue
				}
				if len(m) < 5 {
					o.Unknown("pattern has fewer than 4 groups")
					continue
				}
				gotKw := m[cgroup]
				cls, err := lookup(gotKw)
				if err != nil {
					o.Unknown(err.Error())
					continue
				}
				// the other groups by position relative to the constraint group (day, month, year follow)
				want := []string{sh.day, sh.month, sh.year}
				ok := cls == kwClass[w]
				detail := ""
				if !ok {
					detail = fmt.Sprintf("keyword group captures %q which maps to %s, documented %s", gotKw, cls, kwClass[w])
				}
				for i, wv := range want {
					if cgroup+1+i < len(m) && strings.TrimSpace(m[cgroup+1+i]) != wv {
						ok = false
						detail += fmt.Sprintf(" group %d captures %q, written %q;", cgroup+1+i, m[cgroup+1+i], wv)
					}
				}
				if ok {
					o.OK(fmt.Sprintf("groups %q", m[1:]))
				} else {
					o.Fail("for " + sentence + ": " + detail)
				}
			}
		}
	}

	// R04.b month table
	months, mpos, err := constMapLiteral(p, load.PkgRoot, "months")
	if err != nil {
		r.Add("R04.b", "months table", "-", "month table").Unknown("months is not a constant map literal: " + err.Error())
	} else {
		mp := p.Pos(mpos)
		want := map[string]time.Month{}
		for m := time.January; m <= time.December; m++ {
			full := strings.ToLower(m.String())
			want[full] = m
			want[full[:3]] = m
		}
		for _, w := range c04Months {
			v, ok := months.M[w]
			o := r.Add("R04.b", "month "+w, mp, "documented month spelling "+w)
			switch {
			case !ok:
				o.Fail("documented month spelling " + w + " is missing from the month table")
			case v.(int64) != int64(want[w]):
				o.Fail(fmt.Sprintf("month spelling %s maps to month %d, want %d", w, v, want[w]))
			default:
				o.OK(fmt.Sprintf("-> %d", v))
			}
		}
		for k := range months.M {
			if _, ok := want[k]; !ok {
				r.Add("R04.b", "month "+k, mp, "extra month spelling").Fail("month table contains undocumented spelling " + k)
			}
		}
	}

	// R04.m: checked month lookup
	checkMonthLookup(p, r, parse)
	checkDayValidity(p, r, parse, call, cgroup+1)
	checkSingleFormSelection(p, r)

	// R04.c canonical print
	cstr := p.Method(load.PkgRoot, "DateConstraint", "String")
	if cstr == nil {
		r.Add("R04.c", "DateConstraint.String", "-", "canonical constraint word").Unknown("method not found")
	} else {
		for _, n := range []string{"Exact", "About", "Before", "After"} {
			m := &absint.Machine{Prim: absint.StringLib}
			v, err := m.Call(cstr, []absint.Value{cons[n]})
			word, ok := v.(string)
			if err != nil || !ok {
				r.Add("R04.c", "canonical word "+n, p.Pos(cstr.Pos()), "canonical word of "+n).Unknown(fmt.Sprintf("cannot fold DateConstraint.String: %v", err))
				continue
			}
			for _, form := range []string{"1890", "Jul 1890", "17 Jul 1890"} {
				sentence := strings.TrimSpace(word + " " + form)
				o := r.Add("R04.c", "print "+n+" "+form, p.Pos(cstr.Pos()), "canonical print "+sentence)
				mm := re.FindStringSubmatch(sentence)
				if mm == nil {
					o.Fail("canonical print " + sentence + " is not accepted by the date pattern")
					continue
				}
				got, err := lookup(mm[cgroup])
				if err != nil {
					o.Unknown(err.Error())
				} else if got != n {
					o.Fail(fmt.Sprintf("canonical print %q parses back with constraint %s (captured %q), printed from %s", sentence, got, mm[cgroup], n))
				} else {
					o.OK("re-parses with constraint " + got)
				}
			}
		}
	}
	if months != nil {
		for m := time.January; m <= time.December; m++ {
			abbr := strings.ToLower(m.String()[:3])
			v, ok := months.M[abbr]
			r.Check("R04.c", "printed month "+m.String()[:3], p.Pos(mpos), "printed month abbreviation "+m.String()[:3], ok && v.(int64) == int64(m),
				"in month table", "Date.String prints "+m.String()[:3]+" which the month table does not map back to the same month")
		}
	}

	// R04.r range pattern
	rpat, rg, rcall, err := regexpUsedIn(p, nrs, "FindStringSubmatch")
	rholder := nrs
	if err != nil {
		// the range match may live in a helper NewDateRangeWithString calls (splitDateRangeString)
		for _, c := range su.Calls(nrs) {
			h := c.Common().StaticCallee()
			if h == nil || !p.IsRepoFunc(h) || len(h.Blocks) == 0 || h == parse {
				continue
			}
			if pat2, g2, call2, err2 := regexpUsedIn(p, h, "FindStringSubmatch"); err2 == nil {
				rpat, rg, rcall, err, rholder = pat2, g2, call2, nil, h
				break
			}
		}
	}
	if err != nil {
		r.Add("R04.r", "range pattern", "-", "pattern used by NewDateRangeWithString").Unknown(err.Error())
		return
	}
	r.Extra["range_pattern"] = rpat
	rpos := p.Pos(rg.Pos())
	// R04.s: a pattern that separates its words by exactly one space is only applied to space-normalised text
	r.Rule("R04.s", "a date pattern whose words are separated by exactly one space is applied to text that went through CleanSpace", 1)
	{
		o := r.Add("R04.s", "input of the range pattern", p.Pos(rcall.Pos()), "space normalisation before the range pattern")
		bare, perr := hasBareSpace(rpat)
		switch {
		case perr != nil:
			o.Unknown("cannot parse the range pattern: " + perr.Error())
		case !bare:
			o.OK("the range pattern accepts runs of spaces itself")
		default:
			arg := su.Strip(rcall.Call.Args[1])
			if prm, isPrm := arg.(*ssa.Parameter); isPrm && rholder != nrs {
				// the helper matches its parameter: what does NewDateRangeWithString hand it?
				for _, hc := range su.CallsTo(nrs, rholder) {
					for i, hp := range rholder.Params {
						if hp == prm && i < len(hc.Call.Args) {
							arg = su.Strip(hc.Call.Args[i])
						}
					}
				}
			}
			c, isCall := arg.(*ssa.Call)
			clean := p.Func(load.PkgRoot, "CleanSpace")
			if isCall && clean != nil && c.Call.StaticCallee() == clean {
				o.OK("single-space pattern, input is CleanSpace(...)")
			} else {
				o.Fail("the range pattern separates its words by exactly one space but is applied to text that did not go through CleanSpace: a documented range with an extra space next to the between/and word (\"Bet.  1900 and 1910\") is no longer recognised as a range and is reported invalid")
			}
		}
	}
	rre := regexp.MustCompile(rpat)
	// groups whose captured text is parsed as dates: constant indices of the submatch passed to parseDateParts
	dgs := groupIndicesPassedTo(nrs, rcall, parse)
	if rholder != nrs {
		dgs = groupIndicesReturnedTo(nrs, rholder, rcall, parse)
	}
	ng, _ := relang.NumGroups(rpat)
	if len(dgs) != 2 || ng != 4 {
		r.Add("R04.r", "range groups", rpos, "groups of the range pattern").Unknown(fmt.Sprintf("expected 4 groups with two date groups, found %d groups, date groups %v", ng, dgs))
		return
	}
	wordGroups := []int{}
	for i := 1; i <= ng; i++ {
		if i != dgs[0] && i != dgs[1] {
			wordGroups = append(wordGroups, i)
		}
	}
	docWords := [][]string{{"between", "bet", "bet.", "from"}, {"and", "to", "-"}}
	for wi, gi := range wordGroups {
		sub, err := relang.Group(rpat, gi)
		if err != nil {
			r.Add("R04.r", fmt.Sprintf("group %d", gi), rpos, "range word group").Unknown(err.Error())
			continue
		}
		ls, fin := relang.Language(sub, 1000)
		if !fin {
			r.Add("R04.r", fmt.Sprintf("group %d", gi), rpos, "range word group").Fail("range keyword group has an unbounded language")
			continue
		}
		in := map[string]bool{}
		for _, w := range ls {
			in[w] = true
		}
		for _, w := range docWords[wi] {
			r.Check("R04.r", "range word "+w, rpos, "documented range word "+w, in[w], "accepted", "documented range word "+w+" is not accepted by the range pattern")
			delete(in, w)
		}
		for w := range in {
			disp := strings.ReplaceAll(w, relang.Wild, "<any char>")
			r.Add("R04.r", "range word "+disp, rpos, "undocumented range word").Fail(fmt.Sprintf("the range pattern accepts the undocumented keyword %q (e.g. %q is read as a range)", disp,
				strings.ReplaceAll(w, relang.Wild, "x")+" 1900 and 1901"))
		}
	}
	// R04.q covering table for the range pattern
	for _, bw := range docWords[0] {
		for _, aw := range docWords[1] {
			for _, m := range c04Months {
				for pos := 0; pos < 2; pos++ {
					d1, d2 := "3 "+m+" 1900", "Abt. 1901"
					if pos == 1 {
						d1, d2 = "Bef. 1899", "17 "+strings.ToUpper(m[:1])+m[1:]+" 1900"
					}
					sentence := bw + " " + d1 + " " + aw + " " + d2
					o := r.Add("R04.q", "range "+sentence, rpos, "documented range "+sentence)
					mm := rre.FindStringSubmatch(sentence)
					switch {
					case mm == nil:
						o.Fail("the range pattern rejects the documented range " + sentence)
					case mm[dgs[0]] != d1 || mm[dgs[1]] != d2:
						o.Fail(fmt.Sprintf("the range pattern splits %q into %q and %q instead of %q and %q", sentence, mm[dgs[0]], mm[dgs[1]], d1, d2))
					default:
						o.OK("split into the two written dates")
					}
				}
			}
		}
	}
	// canonical range print formats: every constant format with two %s verbs used by DateRange.String / DateNode.String
	for _, fnm := range []*ssa.Function{p.Method(load.PkgRoot, "DateRange", "String"), p.Method(load.PkgRoot, "DateNode", "String")} {
		if fnm == nil {
			continue
		}
		for _, f := range constFormats(fnm) {
			if strings.Count(f, "%s") != 2 {
				continue
			}
			s := strings.Replace(strings.Replace(f, "%s", "Abt. 1 Jan 1900", 1), "%s", "Feb 1901", 1)
			mm := rre.FindStringSubmatch(s)
			ok := mm != nil && mm[dgs[0]] == "Abt. 1 Jan 1900" && mm[dgs[1]] == "Feb 1901"
			r.Check("R04.c", "range format in "+load.FuncName(fnm), p.Pos(fnm.Pos()), "printed range format "+f, ok,
				"accepted by the range pattern with both dates captured", "the range format "+f+" printed by "+fnm.Name()+" is not read back by the range pattern as the same two dates")
		}
	}
}

// groupIndexPassedTo returns the constant index k such that fn passes
// submatch[k] (submatch = result of call) to callee; 0 if not resolvable.
func groupIndexPassedTo(fn *ssa.Function, submatch *ssa.Call, callee *ssa.Function) int {
	gs := groupIndicesPassedTo(fn, submatch, callee)
	if len(gs) == 0 {
		return 0
	}
	for _, g := range gs[1:] {
		if g != gs[0] {
			return 0
		}
	}
	return gs[0]
}

func groupIndicesPassedTo(fn *ssa.Function, submatch *ssa.Call, callee *ssa.Function) []int {
	var out []int
	for _, b := range fn.Blocks {
		for _, ins := range b.Instrs {
			c, ok := ins.(*ssa.Call)
			if !ok || c.Call.StaticCallee() != callee || len(c.Call.Args) == 0 {
				continue
			}
			// the argument is the group itself, or a variable that holds the group on some path (phi)
			var collect func(v ssa.Value, d int)
			seen := map[ssa.Value]bool{}
			collect = func(v ssa.Value, d int) {
				if seen[v] || d > 4 {
					return
				}
				seen[v] = true
				if ph, isPhi := v.(*ssa.Phi); isPhi {
					for _, e := range ph.Edges {
						collect(e, d+1)
					}
					return
				}
				ld, ok := v.(*ssa.UnOp)
				if !ok {
					return
				}
				ia, ok := ld.X.(*ssa.IndexAddr)
				if !ok || ia.X != ssa.Value(submatch) {
					return
				}
				if iv, ok := su.ConstInt(ia.Index); ok {
					out = append(out, int(iv))
				}
			}
			collect(c.Call.Args[0], 0)
		}
	}
	sort.Ints(out)
	// dedupe
	var d []int
	for i, v := range out {
		if i == 0 || v != out[i-1] {
			d = append(d, v)
		}
	}
	return d
}

// constFormats lists constant format strings passed to fmt.Sprintf in fn.
func constFormats(fn *ssa.Function) []string {
	var out []string
	for _, b := range fn.Blocks {
		for _, ins := range b.Instrs {
			c, ok := ins.(*ssa.Call)
			if !ok {
				continue
			}
			cal := c.Call.StaticCallee()
			if cal == nil || cal.Pkg == nil || cal.Pkg.Pkg.Path() != "fmt" || cal.Name() != "Sprintf" {
				continue
			}
			if k, ok := c.Call.Args[0].(*ssa.Const); ok && k.Value != nil && k.Value.Kind() == constant.String {
				out = append(out, constant.StringVal(k.Value))
			}
		}
	}
	return out
}

// checkMonthLookup: the lookup in the month table must be guarded: comma-ok
// form whose ok is used, or the looked-up word compared against the table /
// empty string on a path that leads to a ParseError result.
func checkMonthLookup(p *load.Prog, r *oblig.Run, parse *ssa.Function) {
	mg := p.Global(load.PkgRoot, "months")
	n := 0
	for _, b := range parse.Blocks {
		for _, ins := range b.Instrs {
			lk, ok := ins.(*ssa.Lookup)
			if !ok {
				continue
			}
			ld, ok := lk.X.(*ssa.UnOp)
			if !ok || ld.X != ssa.Value(mg) {
				continue
			}
			n++
			o := r.Add("R04.m", "month lookup in parseDateParts", p.Pos(lk.Pos()), "lookup of the month word in the month table")
			if !lk.CommaOk {
				o.Fail("the month word is looked up without testing whether it is in the table: an unknown month word (\"Foo 1900\") silently becomes month 0, i.e. the bare year, instead of an invalid date")
				continue
			}
			// ok component must reach a branch
			used := false
			for _, ref := range *lk.Referrers() {
				if ex, ok := ref.(*ssa.Extract); ok && ex.Index == 1 {
					if reachesBranch(ex, 0) {
						used = true
					}
				}
			}
			if !used {
				o.Fail("the comma-ok result of the month lookup is never tested")
				continue
			}
			// every return of a date that carries the looked-up month lies behind the test: on each path from the lookup
			// to such a return either the found flag was seen true or the month word was seen empty
			var okV, monthV ssa.Value
			for _, ref := range *lk.Referrers() {
				if ex, isEx := ref.(*ssa.Extract); isEx {
					if ex.Index == 1 {
						okV = ex
					} else {
						monthV = ex
					}
				}
			}
			word := lk.Index
			bad := ""
			paths, capped := simplePaths(b, map[*ssa.BasicBlock]bool{}, 5000)
			if capped {
				o.Unknown("too many paths from the month lookup")
				continue
			}
			for _, path := range paths {
				last := path[len(path)-1]
				ret, isRet := last.Instrs[len(last.Instrs)-1].(*ssa.Return)
				if !isRet || !feasible(path) {
					continue
				}
				// does the returned Date carry the looked-up month?
				carries := false
				for _, blk := range path {
					for _, i2 := range blk.Instrs {
						if st, isSt := i2.(*ssa.Store); isSt && monthV != nil {
							v := st.Val
							if cv, isCv := v.(*ssa.Convert); isCv {
								v = cv.X
							}
							if v == monthV {
								if fa, isFA := st.Addr.(*ssa.FieldAddr); isFA && su.FieldName(fa) == "Month" {
									carries = true
								}
							}
						}
					}
				}
				_ = ret
				if !carries {
					continue
				}
				tested := false
				for i, blk := range path[:len(path)-1] {
					iff, isIf := blk.Instrs[len(blk.Instrs)-1].(*ssa.If)
					if !isIf {
						continue
					}
					outcome := path[i+1] == blk.Succs[0]
					cond := iff.Cond
					if u, isNot := cond.(*ssa.UnOp); isNot && u.Op == token.NOT {
						cond, outcome = u.X, !outcome
					}
					if cond == okV && outcome {
						tested = true // found in the table
					}
					if bo, isBo := cond.(*ssa.BinOp); isBo && (bo.Op == token.EQL || bo.Op == token.NEQ) {
						if s0, isS := su.ConstString(bo.Y); isS && s0 == "" && bo.X == word && (bo.Op == token.EQL) == outcome {
							tested = true // no month word was written
						}
					}
				}
				if !tested {
					bad = "a path " + pathDesc(p, path) + " returns a date with the looked-up month without having seen the found flag true or the month word empty"
				}
			}
			if bad != "" {
				o.Fail("an unknown month word can get through: " + bad + " - \"Foo 1900\" or \"Sept 1850\" then silently becomes the bare year")
			} else {
				o.OK("comma-ok lookup; every date that carries the month is returned behind the found/empty test")
			}
		}
	}
	if n == 0 {
		r.Add("R04.m", "month lookup in parseDateParts", p.Pos(parse.Pos()), "lookup of the month word").Unknown("no lookup in the month table found in parseDateParts")
	}
}

func reachesBranch(v ssa.Value, depth int) bool {
	if depth > 6 || v.Referrers() == nil {
		return false
	}
	for _, ref := range *v.Referrers() {
		switch x := ref.(type) {
		case *ssa.If:
			return true
		case *ssa.BinOp:
			if reachesBranch(x, depth+1) {
				return true
			}
		case *ssa.UnOp:
			if reachesBranch(x, depth+1) {
				return true
			}
		case *ssa.Phi:
			if reachesBranch(x, depth+1) {
				return true
			}
		}
	}
	return false
}

// wildMatch reports whether w matches a language member in which relang.Wild
// stands for any single character.
func wildMatch(lang []string, w string) bool {
	wr := []rune(w)
	for _, l := range lang {
		lr := []rune(l)
		if len(lr) != len(wr) {
			continue
		}
		ok := true
		for i := range lr {
			if string(lr[i]) != relang.Wild && lr[i] != wr[i] {
				ok = false
				break
			}
		}
		if ok {
			return true
		}
	}
	return false
}

// checkDayValidity: parseDateParts validates day/month/year with time.Parse;
// the branch that turns its error into an invalid date must be conditioned on
// the day capture group being non-empty (the string the user wrote), not on
// the parsed number - "0"/"00" parse to the same 0 that means "no day".
func checkDayValidity(p *load.Prog, r *oblig.Run, parse *ssa.Function, sub *ssa.Call, dayGroup int) {
	var tp *ssa.Call
	for _, c := range su.Calls(parse) {
		if su.CalleeIs(c.Common(), "time", "Parse") {
			tp, _ = c.(*ssa.Call)
		}
	}
	o := r.Add("R04.v", "calendar validity branch in parseDateParts", p.Pos(parse.Pos()), "condition under which the time.Parse error invalidates the date")
	if tp == nil {
		o.Fail("parseDateParts no longer validates the day against the calendar (no time.Parse call): calendar-impossible days are accepted")
		return
	}
	o.Pos = p.Pos(tp.Pos())
	var errV ssa.Value
	for _, ref := range *tp.Referrers() {
		if ex, ok := ref.(*ssa.Extract); ok && ex.Index == 1 {
			errV = ex
		}
	}
	if errV == nil {
		o.Fail("the error of the calendar validation (time.Parse) is discarded")
		return
	}
	// find the If on errV != nil; collect the other conditions on the paths into its true side
	found := false
	for _, b := range parse.Blocks {
		iff, ok := b.Instrs[len(b.Instrs)-1].(*ssa.If)
		if !ok {
			continue
		}
		bo, ok := iff.Cond.(*ssa.BinOp)
		if !ok || bo.X != errV {
			continue
		}
		found = true
		// the && companion: the block is reached from a block ending in an If on the day group (short-circuit), or is the entry of the chain
		companion := false
		wrongCompanion := ""
		for _, pb := range b.Preds {
			piff, ok := pb.Instrs[len(pb.Instrs)-1].(*ssa.If)
			if !ok {
				continue
			}
			pbo, ok := piff.Cond.(*ssa.BinOp)
			if !ok {
				continue
			}
			derivesFromGroup := func(v ssa.Value) bool {
				if base, k, ok := su.ElemOf(v); ok && base == ssa.Value(sub) && int(k) == dayGroup {
					return true
				}
				if c, ok := v.(*ssa.Call); ok {
					if bi, ok := c.Call.Value.(*ssa.Builtin); ok && bi.Name() == "len" {
						if base, k, ok := su.ElemOf(c.Call.Args[0]); ok && base == ssa.Value(sub) && int(k) == dayGroup {
							return true
						}
					}
				}
				return false
			}
			if derivesFromGroup(pbo.X) || derivesFromGroup(pbo.Y) {
				companion = true
			} else {
				wrongCompanion = pbo.String()
			}
		}
		if len(b.Preds) == 0 || (b == parse.Blocks[0]) {
			companion = true
		}
		switch {
		case companion:
			o.OK("the error is consulted whenever the day capture group is non-empty")
		case wrongCompanion != "":
			o.Fail("the calendar validation error is only consulted under the condition " + wrongCompanion + ", which is not a test of the written day group: a written day such as \"0\" or \"00\" (parsed to the same 0 as 'no day') escapes validation and '0 Jan 1900' silently becomes 'Jan 1900'")
		default:
			// unconditional use of the error is also fine when no day means day 1 in the probe; accept
			o.OK("the error is consulted unconditionally")
		}
	}
	if !found {
		o.Fail("the error of the calendar validation (time.Parse) never steers a branch")
	}
}

// checkSingleFormSelection: the two canonical printers must select the
// single-date form with the structural comparison Date.Is.
func checkSingleFormSelection(p *load.Prog, r *oblig.Run) {
	is := p.Method(load.PkgRoot, "Date", "Is")
	for _, fn := range []*ssa.Function{p.Method(load.PkgRoot, "DateRange", "String"), p.Method(load.PkgRoot, "DateNode", "String")} {
		if fn == nil {
			continue
		}
		o := r.Add("R04.s", "single-form test in "+load.FuncName(fn), p.Pos(fn.Pos()), "predicate that selects the single-date print form")
		if is == nil {
			o.Unknown("Date.Is not found")
			continue
		}
		// delegation to the sibling printer is fine
		delegates := false
		for _, c := range su.Calls(fn) {
			if cal := c.Common().StaticCallee(); cal != nil && cal != fn && cal.Name() == "String" && cal.Signature.Recv() != nil {
				if n := load.NamedOf(cal.Signature.Recv().Type()); n != nil && (n.Obj().Name() == "DateRange" || n.Obj().Name() == "DateNode") {
					delegates = true
				}
			}
		}
		var sel *ssa.Function
		for _, b := range fn.Blocks {
			iff, ok := b.Instrs[len(b.Instrs)-1].(*ssa.If)
			if !ok {
				continue
			}
			if c, ok := iff.Cond.(*ssa.Call); ok {
				if cal := c.Call.StaticCallee(); cal != nil && cal.Signature.Recv() != nil {
					if n := load.NamedOf(cal.Signature.Recv().Type()); n != nil && n.Obj().Name() == "Date" {
						sel = cal
					}
				}
			}
		}
		switch {
		case sel == is:
			o.OK("Date.Is")
		case sel == nil && delegates:
			o.OK("delegates to the sibling printer")
		case sel == nil:
			o.Unknown("no Date predicate selects the print form")
		default:
			o.Fail("the single-date print form is selected with Date." + sel.Name() + " instead of the structural Date.Is: a range whose ends merely could be the same date (\"from 3 Sep 1900 to Bef. Mar 1950\") prints as its start only and does not parse back to the same end date")
		}
	}
}

// c04RangeValid (R04.w): on every path of DateRange.IsValid that answers true both ends were tested non-zero.
func c04RangeValid(p *load.Prog, r *oblig.Run) {
	fn := p.Method(load.PkgRoot, "DateRange", "IsValid")
	o := r.Add("R04.w", "DateRange.IsValid", "-", "when a range counts as valid")
	if fn == nil || len(fn.Blocks) == 0 {
		o.Unknown("DateRange.IsValid not found")
		return
	}
	o.Pos = p.Pos(fn.Pos())
	// IsZero calls and which end they test
	endOf := func(c *ssa.Call) string {
		if cal := c.Call.StaticCallee(); cal == nil || cal.Name() != "IsZero" || len(c.Call.Args) != 1 {
			return ""
		}
		return describeDateExpr(c.Call.Args[0], 0)
	}
	paths, capped := simplePaths(fn.Blocks[0], map[*ssa.BasicBlock]bool{}, 2000)
	if capped {
		o.Unknown("too many paths")
		return
	}
	bad, n := "", 0
	for _, path := range paths {
		last := path[len(path)-1]
		ret, ok := last.Instrs[len(last.Instrs)-1].(*ssa.Return)
		if !ok || len(ret.Results) != 1 {
			continue
		}
		pred := map[*ssa.BasicBlock]*ssa.BasicBlock{}
		for i := 1; i < len(path); i++ {
			pred[path[i]] = path[i-1]
		}
		resolve := func(v ssa.Value) ssa.Value {
			for i := 0; i < 8; i++ {
				ph, ok := v.(*ssa.Phi)
				if !ok {
					return v
				}
				moved := false
				for j, q := range ph.Block().Preds {
					if q == pred[ph.Block()] {
						v, moved = ph.Edges[j], true
					}
				}
				if !moved {
					return v
				}
			}
			return v
		}
		nonZero := map[string]bool{}
		note := func(cond ssa.Value, outcome bool) {
			for {
				if u, isNot := cond.(*ssa.UnOp); isNot && u.Op == token.NOT {
					cond, outcome = u.X, !outcome
					continue
				}
				break
			}
			if c, isCall := cond.(*ssa.Call); isCall && !outcome {
				if e := endOf(c); e != "" {
					nonZero[e] = true
				}
			}
		}
		for i, b := range path[:len(path)-1] {
			if iff, isIf := b.Instrs[len(b.Instrs)-1].(*ssa.If); isIf {
				note(resolve(iff.Cond), path[i+1] == b.Succs[0])
			}
		}
		v := resolve(ret.Results[0])
		if k, isK := v.(*ssa.Const); isK {
			if k.Value == nil || !constant.BoolVal(k.Value) {
				continue // answers false
			}
		} else {
			note(v, true) // answers true when this expression is true
		}
		n++
		if len(nonZero) < 2 {
			bad = fmt.Sprintf("a path answers true after testing only %d end(s) for being non-zero", len(nonZero))
		}
	}
	switch {
	case n == 0:
		o.Unknown("IsValid never answers true")
	case bad != "":
		o.Fail("DateRange.IsValid: " + bad + " - a range with one unparsable end (Bet. 31 Feb 1900 and 1910) counts as valid, loses its warning and prints with a hole")
	default:
		o.OK(fmt.Sprintf("%d path(s) answering true, each after both ends were found non-zero", n))
	}
}

// hasBareSpace: the pattern contains a space that is not the operand of a + or * repetition (words separated by
// exactly one space).
func hasBareSpace(pat string) (bool, error) {
	re, err := syntax.Parse(pat, syntax.Perl)
	if err != nil {
		return false, err
	}
	var walk func(n *syntax.Regexp, repeated bool) bool
	walk = func(n *syntax.Regexp, repeated bool) bool {
		switch n.Op {
		case syntax.OpLiteral:
			for _, c := range n.Rune {
				if c == ' ' && !(repeated && len(n.Rune) == 1) {
					return true
				}
			}
			return false
		case syntax.OpPlus, syntax.OpStar:
			return walk(n.Sub[0], true)
		case syntax.OpRepeat:
			return walk(n.Sub[0], n.Max == -1)
		}
		for _, sub := range n.Sub {
			if walk(sub, false) {
				return true
			}
		}
		return false
	}
	return walk(re, false), nil
}

// groupIndicesReturnedTo: the submatch lives in helper h, which returns groups of it; caller passes those results to
// callee. Returns the constant group indexes that reach callee's first argument this way.
func groupIndicesReturnedTo(caller, h *ssa.Function, submatch *ssa.Call, callee *ssa.Function) []int {
	// result index -> group indexes returned at that position
	byResult := map[int][]int{}
	for _, b := range h.Blocks {
		ret, ok := b.Instrs[len(b.Instrs)-1].(*ssa.Return)
		if !ok {
			continue
		}
		for i, res := range ret.Results {
			var collect func(v ssa.Value, d int)
			collect = func(v ssa.Value, d int) {
				if d > 4 {
					return
				}
				if ph, isPhi := v.(*ssa.Phi); isPhi {
					for _, e := range ph.Edges {
						collect(e, d+1)
					}
					return
				}
				ld, ok := v.(*ssa.UnOp)
				if !ok {
					return
				}
				ia, ok := ld.X.(*ssa.IndexAddr)
				if !ok || ia.X != ssa.Value(submatch) {
					return
				}
				if iv, ok := su.ConstInt(ia.Index); ok {
					byResult[i] = append(byResult[i], int(iv))
				}
			}
			collect(res, 0)
		}
	}
	var out []int
	for _, hc := range su.CallsTo(caller, h) {
		for _, ref := range *hc.Referrers() {
			ex, ok := ref.(*ssa.Extract)
			if !ok {
				continue
			}
			for _, r2 := range *ex.Referrers() {
				c, ok := r2.(*ssa.Call)
				if ok && c.Call.StaticCallee() == callee && len(c.Call.Args) > 0 && c.Call.Args[0] == ssa.Value(ex) {
					out = append(out, byResult[ex.Index]...)
				}
			}
		}
	}
	sort.Ints(out)
	var d []int
	for i, v := range out {
		if i == 0 || v != out[i-1] {
			d = append(d, v)
		}
	}
	return d
}

// c04RangeOrder (R04.t): wherever a range is printed with the canonical 'Bet. <a> and <b>' format, <a> is derived from
// the start of the range and <b> from its end (through fields, accessors, String() and parameters of printing helpers).
func c04RangeOrder(p *load.Prog, r *oblig.Run) {
	r.Rule("R04.t", "the canonical range format prints the start before the end", 1)
	var side func(v ssa.Value, depth int) string
	side = func(v ssa.Value, depth int) string {
		if depth > 8 {
			return "?"
		}
		switch x := v.(type) {
		case *ssa.MakeInterface:
			return side(x.X, depth+1)
		case *ssa.ChangeType:
			return side(x.X, depth+1)
		case *ssa.Field:
			st := x.X.Type().Underlying().(*types.Struct)
			n := strings.ToLower(st.Field(x.Field).Name())
			if strings.Contains(n, "start") {
				return "start"
			}
			if strings.Contains(n, "end") {
				return "end"
			}
			return side(x.X, depth+1)
		case *ssa.UnOp:
			if fa, ok := x.X.(*ssa.FieldAddr); ok && x.Op == token.MUL {
				n := strings.ToLower(su.FieldName(fa))
				if strings.Contains(n, "start") {
					return "start"
				}
				if strings.Contains(n, "end") {
					return "end"
				}
				return "?"
			}
			if al, ok := x.X.(*ssa.Alloc); ok && x.Op == token.MUL {
				for _, ref := range *al.Referrers() {
					if st, ok := ref.(*ssa.Store); ok && st.Addr == ssa.Value(al) {
						return side(st.Val, depth+1)
					}
				}
			}
			return "?"
		case *ssa.Extract:
			if c, ok := x.Tuple.(*ssa.Call); ok {
				if cal := c.Call.StaticCallee(); cal != nil && cal.Name() == "StartAndEndDates" {
					return []string{"start", "end"}[x.Index%2]
				}
			}
			return "?"
		case *ssa.Call:
			cal := x.Call.StaticCallee()
			if cal == nil {
				return "?"
			}
			n := strings.ToLower(cal.Name())
			switch {
			case strings.HasPrefix(n, "start"):
				return "start"
			case strings.HasPrefix(n, "end"):
				return "end"
			case cal.Name() == "String" && len(x.Call.Args) == 1:
				return side(x.Call.Args[0], depth+1)
			}
			return "?"
		case *ssa.Parameter:
			// a printing helper: every call site passes the same side at this position
			fn := x.Parent()
			idx := -1
			for i, q := range fn.Params {
				if q == x {
					idx = i
				}
			}
			res := ""
			for _, g := range p.Repo {
				for _, c := range su.CallsTo(g, fn) {
					if idx < 0 || idx >= len(c.Call.Args) {
						return "?"
					}
					s := side(c.Call.Args[idx], depth+1)
					if res == "" {
						res = s
					} else if res != s {
						return "mixed"
					}
				}
			}
			if res == "" {
				return "?"
			}
			return res
		}
		return "?"
	}
	n := 0
	for _, fn := range p.Repo {
		if pkgPathOf(fn) != load.PkgRoot || len(fn.Blocks) == 0 {
			continue
		}
		for _, c := range su.Calls(fn) {
			cc := c.Common()
			if !su.CalleeIs(cc, "fmt", "Sprintf") || len(cc.Args) < 2 {
				continue
			}
			f, ok := su.ConstString(cc.Args[0])
			if !ok || !strings.Contains(strings.ToLower(f), " and ") || strings.Count(f, "%s") != 2 {
				continue
			}
			elems, ok := variadicElems(cc.Args[1])
			if !ok || len(elems) != 2 {
				continue
			}
			n++
			a, b := side(elems[0], 0), side(elems[1], 0)
			o := r.Add("R04.t", fmt.Sprintf("range format %d in %s", n, load.FuncName(fn)), p.Pos(c.Pos()), fmt.Sprintf("operands of %q", f))
			switch {
			case a == "end" || b == "start" || a == "mixed" || b == "mixed":
				o.Fail(fmt.Sprintf("the range format %q in %s prints the %s of the range first and the %s second: a range is printed with its ends swapped ('Bet. 1910 and 1900' for 1900-1910), and parsing that text gives a different range", f, load.FuncName(fn), a, b))
			case a == "start" && b == "end":
				o.OK("start, end")
			default:
				o.Unknown(fmt.Sprintf("cannot tell which end of the range the operands of %q come from (%s, %s)", f, a, b))
			}
		}
	}
	if n == 0 {
		r.Add("R04.t", "range formats", "-", "uses of the canonical range format").Unknown("no 'x and y' format with two %s found")
	}
}
