package props

import (
	"fmt"
	"go/types"

	"gedverif/internal/cg"
	"gedverif/internal/e1"
	"gedverif/internal/lin"
	"gedverif/internal/load"

	"golang.org/x/tools/go/ssa"
)

// panics:<pkg>:<func>[,<pkg>:<func>...]
func debugPanics(p *load.Prog, parts []string) {
	bce, err := e1.BCE(p)
	if err != nil {
		fmt.Println(err)
		return
	}
	sites, unmatched := e1.Enumerate(p, bce)
	fmt.Printf("bce positions %d, unmatched %d\n", len(bce), unmatched)
	var entries []*ssa.Function
	for i := 1; i+1 < len(parts); i += 2 {
		f := lookupFunc(p, parts[i], parts[i+1])
		if f == nil {
			fmt.Println("not found", parts[i], parts[i+1])
			return
		}
		entries = append(entries, f)
	}
	g := cg.New(p, false)
	reached, nf, po := e1.Reachable(p, g, entries, sites)
	fmt.Printf("functions %d, unprotected sites %d, protected-only sites %d\n", nf, len(reached), po)
	for _, s := range reached {
		fmt.Printf("%s %-28s %s :: %s\n", s.Class, p.Pos(s.Pos), s.Shape, load.FuncName(s.Fn))
	}
}

func init() {
	debugHooks["lin"] = func(p *load.Prog, parts []string) {
		fn := lookupFunc(p, parts[1], parts[2])
		nn := nonNegSummary(p)
		for _, b := range fn.Blocks {
			for _, ins := range b.Instrs {
				switch ins.(type) {
				case *ssa.IndexAddr, *ssa.Slice, *ssa.Index:
					fmt.Println(p.Pos(ins.Pos()), ins.String())
					fmt.Println(lin.Debug(ins, nn))
				}
			}
		}
	}
}

func init() {
	debugHooks["nonneg"] = func(p *load.Prog, parts []string) {
		fn := lookupFunc(p, parts[1], parts[2])
		nn := nonNegSummary(p)
		for _, b := range fn.Blocks {
			for _, ins := range b.Instrs {
				if v, ok := ins.(ssa.Value); ok && isIntV(v) {
					fmt.Println(v.Name(), v.String(), nn(v))
				}
			}
		}
	}
}

func isIntV(v ssa.Value) bool {
	b, ok := v.Type().Underlying().(*types.Basic)
	return ok && b.Info()&types.IsInteger != 0
}
