package props

import (
	"regexp"
	"fmt"
	"os"
	"go/token"
	"go/types"
	"sort"
	"strings"

	"gedverif/internal/load"
	"gedverif/internal/oblig"
	"gedverif/internal/su"

	"golang.org/x/tools/go/ssa"
)

// memoKeys (R-memo, run as R05.e / R06.h / R12.h): a function of the library
// package that remembers results in a process-wide table (a package-level
// sync.Map or map it both reads and writes) must key the table by its inputs
// themselves: a parameter, a constant, or a struct/array of parameters,
// constants and fields of parameters that covers every parameter the function
// uses. A key *computed* from the inputs (arithmetic, concatenation, fmt) can
// coincide for different inputs; the second caller then gets the first one's
// result, so the function's value depends on the history of the process and no
// longer on its operands alone (order dependence, wrong relation, score of
// another pair). The rule does not try to prove a computed key injective.
func memoKeys(p *load.Prog, r *oblig.Run, rule string) {
	r.Rule(rule, "a process-wide memo table in the library package is keyed by the function's inputs themselves (parameters, their fields, constants), never by a value computed from them", 0)
	type acc struct {
		fn    *ssa.Function
		g     *ssa.Global
		keys  []ssa.Value
		read  bool
		write bool
		pos   token.Pos
	}
	accs := map[string]*acc{}
	globalOf := func(v ssa.Value) *ssa.Global {
		for i := 0; i < 8; i++ {
			switch x := v.(type) {
			case *ssa.Global:
				return x
			case *ssa.UnOp:
				if x.Op == token.MUL {
					v = x.X
					continue
				}
			case *ssa.TypeAssert: // a table stored in a table (nodeCache: node -> tag -> nodes)
				v = x.X
				continue
			case *ssa.Extract:
				v = x.Tuple
				continue
			case *ssa.Call:
				if cal := x.Call.StaticCallee(); cal != nil && cal.Pkg != nil && cal.Pkg.Pkg.Path() == "sync" && cal.Name() == "Load" && len(x.Call.Args) > 0 {
					v = x.Call.Args[0]
					continue
				}
			case *ssa.Lookup:
				v = x.X
				continue
			}
			return nil
		}
		return nil
	}
	outer := func(fn *ssa.Function) *ssa.Function {
		for fn.Parent() != nil {
			fn = fn.Parent()
		}
		return fn
	}
	// results read from a table that are handed back to the caller (memo hit)
	returnsRead := map[string]bool{}
	for _, fn := range p.Repo {
		pk := pkgPathOf(fn)
		if (pk != load.PkgRoot && pk != load.PkgUtil) || fn.Name() == "init" || strings.HasPrefix(fn.Name(), "init#") {
			continue
		}
		note := func(g *ssa.Global, key ssa.Value, read, write bool, pos token.Pos) {
			k := load.FuncName(outer(fn)) + " / " + g.Name()
			a := accs[k]
			if a == nil {
				a = &acc{fn: outer(fn), g: g, pos: pos}
				accs[k] = a
			}
			if key != nil {
				a.keys = append(a.keys, key)
			}
			a.read = a.read || read
			a.write = a.write || write
		}
		for _, b := range fn.Blocks {
			for _, ins := range b.Instrs {
				switch x := ins.(type) {
				case *ssa.Lookup:
					if g := globalOf(x.X); g != nil {
						if _, isMap := x.X.Type().Underlying().(*types.Map); isMap {
							note(g, x.Index, true, false, x.Pos())
						}
					}
				case *ssa.MapUpdate:
					if g := globalOf(x.Map); g != nil {
						note(g, x.Key, false, true, x.Pos())
					}
				case ssa.CallInstruction:
					cc := x.Common()
					cal := cc.StaticCallee()
					if cal == nil || cal.Pkg == nil || cal.Pkg.Pkg.Path() != "sync" || len(cc.Args) < 2 {
						continue
					}
					if n := load.NamedOf(cal.Signature.Recv().Type()); n == nil || n.Obj().Name() != "Map" {
						continue
					}
					g := globalOf(cc.Args[0])
					if g == nil {
						continue
					}
					switch cal.Name() {
					case "Load":
						note(g, cc.Args[1], true, false, x.Pos())
					case "Store":
						note(g, cc.Args[1], false, true, x.Pos())
					case "LoadOrStore", "LoadAndDelete", "Swap", "CompareAndSwap":
						note(g, cc.Args[1], true, true, x.Pos())
					}
				}
			}
		}
	}
	for k, a := range accs {
		for _, sub := range append([]*ssa.Function{a.fn}, allAnon(a.fn)...) {
			for _, b := range sub.Blocks {
				ret, ok := b.Instrs[len(b.Instrs)-1].(*ssa.Return)
				if !ok {
					continue
				}
				for _, rv := range ret.Results {
					var hit ssa.Instruction
					var from func(v ssa.Value, d int) bool
					from = func(v ssa.Value, d int) bool {
						if d > 8 {
							return false
						}
						switch x := v.(type) {
						case *ssa.TypeAssert:
							return from(x.X, d+1)
						case *ssa.Extract:
							return from(x.Tuple, d+1)
						case *ssa.ChangeType:
							return from(x.X, d+1)
						case *ssa.Phi:
							for _, e := range x.Edges {
								if from(e, d+1) {
									return true
								}
							}
						case *ssa.UnOp:
							// a named result spilled to memory (captured by a deferred closure)
							if al, ok := x.X.(*ssa.Alloc); ok && x.Op == token.MUL {
								for _, ref := range *al.Referrers() {
									if st, ok := ref.(*ssa.Store); ok && st.Addr == ssa.Value(al) && from(st.Val, d+1) {
										return true
									}
								}
							}
						case *ssa.Lookup:
							if globalOf(x.X) == a.g {
								hit = x
								return true
							}
						case *ssa.Call:
							if cal := x.Call.StaticCallee(); cal != nil && cal.Pkg != nil && cal.Pkg.Pkg.Path() == "sync" && len(x.Call.Args) > 0 {
								if globalOf(x.Call.Args[0]) == a.g {
									hit = x
									return true
								}
							}
						}
						return false
					}
					if from(rv, 0) && hit != nil {
						// a registry hands back what it has just stored; a memo answers from the table instead of computing
						afterWrite := false
						for _, b2 := range sub.Blocks {
							for _, ins := range b2.Instrs {
								isW := false
								switch w := ins.(type) {
								case *ssa.MapUpdate:
									isW = globalOf(w.Map) == a.g
								case ssa.CallInstruction:
									if cal := w.Common().StaticCallee(); cal != nil && cal.Pkg != nil && cal.Pkg.Pkg.Path() == "sync" && cal.Name() == "Store" && len(w.Common().Args) > 0 {
										isW = globalOf(w.Common().Args[0]) == a.g
									}
								}
								if isW && su.Dominates(ins, hit) {
									afterWrite = true
								}
							}
						}
						if !afterWrite {
							returnsRead[k] = true
						}
					}
				}
			}
		}
	}
	var names []string
	for k, a := range accs {
		if a.read && a.write && returnsRead[k] {
			names = append(names, k)
		}
	}
	sort.Strings(names)
	for _, k := range names {
		a := accs[k]
		fn := a.fn
		o := r.Add(rule, "memo key of "+k, p.Pos(a.pos), "key of the process-wide table "+a.g.Name())
		covered := map[*ssa.Parameter]bool{}
		partial := map[*ssa.Parameter]map[string]bool{}
		bad := ""
		var classify func(v ssa.Value, d int)
		paramOf := func(v ssa.Value) *ssa.Parameter {
			// the parameter itself or its local copy (a by-value receiver spilled to memory)
			for i := 0; i < 6; i++ {
				switch x := v.(type) {
				case *ssa.Parameter:
					return x
				case *ssa.FreeVar:
					var bound ssa.Value
					if par := x.Parent().Parent(); par != nil {
						for _, b := range par.Blocks {
							for _, ins := range b.Instrs {
								if mc, ok := ins.(*ssa.MakeClosure); ok && mc.Fn == x.Parent() {
									for j, fv := range x.Parent().FreeVars {
										if fv == x {
											bound = mc.Bindings[j]
										}
									}
								}
							}
						}
					}
					if bound == nil {
						return nil
					}
					v = bound
				case *ssa.Alloc:
					var st ssa.Value
					n := 0
					for _, ref := range *x.Referrers() {
						if s, ok := ref.(*ssa.Store); ok && s.Addr == ssa.Value(x) {
							st, n = s.Val, n+1
						}
					}
					if n != 1 {
						return nil
					}
					v = st
				case *ssa.UnOp:
					if x.Op != token.MUL {
						return nil
					}
					v = x.X
				default:
					return nil
				}
			}
			return nil
		}
		classify = func(v ssa.Value, d int) {
			if d > 6 {
				bad = "a value the rule cannot follow"
				return
			}
			switch x := v.(type) {
			case *ssa.MakeInterface:
				classify(x.X, d+1)
			case *ssa.ChangeType:
				classify(x.X, d+1)
			case *ssa.ChangeInterface:
				classify(x.X, d+1)
			case *ssa.Const:
			case *ssa.Parameter:
				covered[x] = true
			case *ssa.Field:
				if pp := paramOf(x.X); pp != nil {
					if partial[pp] == nil {
						partial[pp] = map[string]bool{}
					}
					st := x.X.Type().Underlying().(*types.Struct)
					partial[pp][st.Field(x.Field).Name()] = true
				} else {
					bad = "a field of a computed value"
				}
			case *ssa.UnOp:
				if x.Op != token.MUL {
					bad = "a computed value (" + x.Op.String() + ")"
					return
				}
				switch ad := x.X.(type) {
				case *ssa.FieldAddr:
					if pp := paramOf(ad.X); pp != nil {
						if partial[pp] == nil {
							partial[pp] = map[string]bool{}
						}
						partial[pp][su.FieldName(ad)] = true
					} else {
						bad = "a field of a computed value"
					}
				case *ssa.FreeVar:
					if pp := paramOf(ad); pp != nil {
						covered[pp] = true
						return
					}
					bad = "a captured value the rule cannot follow"
				case *ssa.Alloc:
					if pp := paramOf(ad); pp != nil {
						covered[pp] = true
						return
					}
					// a composite key built locally: every element stored
					n := 0
					for _, ref := range *ad.Referrers() {
						var addr ssa.Value
						switch y := ref.(type) {
						case *ssa.FieldAddr:
							addr = y
						case *ssa.IndexAddr:
							addr = y
						default:
							continue
						}
						for _, r2 := range *addr.Referrers() {
							if st, ok := r2.(*ssa.Store); ok && st.Addr == addr {
								n++
								classify(st.Val, d+1)
							}
						}
					}
					if n == 0 {
						bad = "a local value the rule cannot follow"
					}
				default:
					bad = "a value loaded from memory the rule cannot follow"
				}
			case *ssa.BinOp:
				bad = "a value computed with '" + x.Op.String() + "' (arithmetic or concatenation of the inputs)"
			case *ssa.Call:
				name := "a call"
				if cal := x.Call.StaticCallee(); cal != nil {
					name = load.FuncName(cal)
				}
				bad = "the result of " + name
			case *ssa.Convert:
				bad = "a converted value"
			default:
				bad = fmt.Sprintf("a computed value (%T)", v)
			}
		}
		for _, kv := range a.keys {
			classify(kv, 0)
		}
		// parameters the function uses
		var missing []string
		for _, prm := range fn.Params {
			if prm.Referrers() == nil || len(*prm.Referrers()) == 0 || covered[prm] {
				continue
			}
			// parameters that only select behaviour by being compared/handed on are still inputs
			if fields, ok := partial[prm]; ok {
				// keyed by some fields: every field the function reads directly must be a key field, and the
				// parameter must not be handed on whole
				okp := true
				var walk func(v ssa.Value, depth int)
				seen := map[ssa.Value]bool{}
				walk = func(v ssa.Value, depth int) {
					if seen[v] || v.Referrers() == nil {
						return
					}
					seen[v] = true
					for _, ref := range *v.Referrers() {
						switch y := ref.(type) {
						case *ssa.Store:
							if y.Val == v {
								if al, isAl := y.Addr.(*ssa.Alloc); isAl {
									walk(al, depth+1)
								} else {
									okp = false
								}
							}
						case *ssa.FieldAddr:
							if !fields[su.FieldName(y)] {
								okp = false
							}
						case *ssa.Field:
							st := y.X.Type().Underlying().(*types.Struct)
							if !fields[st.Field(y.Field).Name()] {
								okp = false
							}
						case *ssa.UnOp:
							walk(y, depth+1)
						case *ssa.DebugRef:
						case *ssa.Call:
							// handed on to a function of the repository: the fields that one reads
							cal := y.Call.StaticCallee()
							if cal == nil || !p.InRepo(cal) || len(cal.Blocks) == 0 || depth > 6 || len(cal.Params) != len(y.Call.Args) {
								okp = false
								break
							}
							for i, a := range y.Call.Args {
								if a == v {
									walk(cal.Params[i], depth+2)
								}
							}
						default:
							okp = false
						}
					}
				}
				walk(prm, 0)
				if okp {
					continue
				}
			}
			missing = append(missing, prm.Name())
		}
		switch {
		case bad != "":
			o.Fail(fmt.Sprintf("%s remembers results in the process-wide table %s under a key that is %s, not the inputs themselves: different inputs can share a key, and the later caller gets the earlier one's result - the value of the function depends on what the process computed before (wrong relation/score for the colliding operand, dependence on evaluation order)", load.FuncName(fn), a.g.Name(), bad))
		case len(missing) > 0:
			o.Fail(fmt.Sprintf("%s remembers results in the process-wide table %s, but the key does not contain its input(s) %s: calls that differ only there share one entry", load.FuncName(fn), a.g.Name(), strings.Join(missing, ", ")))
		default:
			o.OK("keyed by the inputs themselves")
		}
	}
	r.Extra[rule+"_tables"] = names
	globalScratch(p, r, rule)
	if os.Getenv("GEDCHECK_DEBUG_MEMO") != "" {
		for k, a := range accs {
			fmt.Println("MEMO", k, a.read, a.write, returnsRead[k], len(a.keys))
		}
	}
}

func allAnon(fn *ssa.Function) []*ssa.Function {
	var out []*ssa.Function
	for _, a := range fn.AnonFuncs {
		out = append(out, a)
		out = append(out, allAnon(a)...)
	}
	return out
}

// c12Identity (R12.i): a similarity function does not compare its two operands
// by identity. A score is a function of what the two records say; an
// `a == b` shortcut answers 1 for a record against itself where the very same
// content held by a copy scores the neutral 0.5 for each missing piece.
func c12Identity(p *load.Prog, r *oblig.Run) {
	r.Rule("R12.i", "a similarity function never compares its two operands by identity (pointer equality): the score depends on the recorded content only", 5)
	for _, fn := range p.Repo {
		if pkgPathOf(fn) != load.PkgRoot || fn.Parent() != nil {
			continue
		}
		n := fn.Name()
		if !strings.Contains(n, "Similarity") && n != "jaro" && n != "JaroWinkler" {
			continue
		}
		if fn.Signature.Results().Len() == 0 {
			continue
		}
		if bt, ok := fn.Signature.Results().At(0).Type().Underlying().(*types.Basic); !ok || bt.Kind() != types.Float64 {
			continue
		}
		o := r.Add("R12.i", "identity tests in "+load.FuncName(fn), p.Pos(fn.Pos()), "comparisons of one operand with the other")
		bad := ""
		isRef := func(t types.Type) bool {
			switch t.Underlying().(type) {
			case *types.Pointer, *types.Interface:
				return true
			}
			return false
		}
		prm := func(v ssa.Value) *ssa.Parameter {
			for i := 0; i < 4; i++ {
				switch x := v.(type) {
				case *ssa.Parameter:
					return x
				case *ssa.ChangeType:
					v = x.X
				case *ssa.MakeInterface:
					v = x.X
				case *ssa.ChangeInterface:
					v = x.X
				default:
					return nil
				}
			}
			return nil
		}
		for _, sub := range append([]*ssa.Function{fn}, allAnon(fn)...) {
			for _, b := range sub.Blocks {
				for _, ins := range b.Instrs {
					bo, ok := ins.(*ssa.BinOp)
					if !ok || (bo.Op != token.EQL && bo.Op != token.NEQ) {
						continue
					}
					a, c := prm(bo.X), prm(bo.Y)
					if a != nil && c != nil && a != c && a.Parent() == fn && c.Parent() == fn && isRef(a.Type()) && isRef(c.Type()) {
						bad = fmt.Sprintf("%s compares its operands %s and %s by identity at %s", load.FuncName(fn), a.Name(), c.Name(), p.Pos(bo.Pos()))
					}
				}
			}
		}
		if bad != "" {
			o.Fail(bad + ": a record scores differently against itself than against an equal copy (identical content, different score), and missing information no longer counts the neutral 0.5")
		} else {
			o.OK("no comparison of one operand's identity with the other's")
		}
	}
}

// sortsInternal (R13.g): no code of the repository sorts, in place, a slice that a Document/node accessor handed
// out from its own storage (a cached list, the children of a node). Sorting it is a write to the document made by
// what looks like a read (rendering a page, printing a report): every later reader sees the records in another order.
func sortsInternal(p *load.Prog, r *oblig.Run, rule string) {
	r.Rule(rule, "no in-place sort of a slice handed out by a Document/node accessor from its own storage", 5)
	returnsStorage := func(h *ssa.Function) bool {
		if h == nil || len(h.Blocks) == 0 || h.Signature.Recv() == nil {
			return false
		}
		for _, b := range h.Blocks {
			ret, ok := b.Instrs[len(b.Instrs)-1].(*ssa.Return)
			if !ok || len(ret.Results) == 0 {
				continue
			}
			seen := map[ssa.Value]bool{}
			var internal func(v ssa.Value) bool
			internal = func(v ssa.Value) bool {
				if seen[v] {
					return false
				}
				seen[v] = true
				switch x := v.(type) {
				case *ssa.Phi:
					for _, e := range x.Edges {
						if internal(e) {
							return true
						}
					}
				case *ssa.ChangeType:
					return internal(x.X)
				case *ssa.Slice:
					return internal(x.X)
				case *ssa.UnOp:
					if fa, ok := x.X.(*ssa.FieldAddr); ok && x.Op == token.MUL {
						base := fa.X
						// the receiver spilled to memory because a closure captured it
						if ld, ok := base.(*ssa.UnOp); ok && ld.Op == token.MUL {
							if al, ok := ld.X.(*ssa.Alloc); ok {
								k := 0
								for _, ref := range *al.Referrers() {
									if s2, ok := ref.(*ssa.Store); ok && s2.Addr == ssa.Value(al) {
										base, k = s2.Val, k+1
									}
								}
								if k != 1 {
									return false
								}
							}
						}
						_, isPrm := base.(*ssa.Parameter)
						return isPrm
					}
					// a named result: what was stored into it
					if al, ok := x.X.(*ssa.Alloc); ok && x.Op == token.MUL {
						for _, ref := range *al.Referrers() {
							if st, ok := ref.(*ssa.Store); ok && st.Addr == ssa.Value(al) && internal(st.Val) {
								return true
							}
						}
					}
				}
				return false
			}
			if internal(ret.Results[0]) {
				return true
			}
		}
		return false
	}
	n := 0
	for _, fn := range p.Repo {
		for _, c := range su.Calls(fn) {
			cc := c.Common()
			cal := cc.StaticCallee()
			if cal == nil || cal.Pkg == nil || cal.Pkg.Pkg.Path() != "sort" || len(cc.Args) == 0 {
				continue
			}
			switch cal.Name() {
			case "Slice", "SliceStable", "Sort", "Stable", "Strings", "Ints":
			default:
				continue
			}
			n++
			o := r.Add(rule, "sort in "+load.FuncName(fn), p.Pos(c.Pos()), "the slice that is sorted in place")
			v := cc.Args[0]
			for i := 0; i < 6; i++ {
				switch x := v.(type) {
				case *ssa.MakeInterface:
					v = x.X
				case *ssa.ChangeType:
					v = x.X
				case *ssa.UnOp:
					// a local that the less function captured: assigned once
					if al, ok := x.X.(*ssa.Alloc); ok && x.Op == token.MUL {
						var st ssa.Value
						k := 0
						for _, ref := range *al.Referrers() {
							if s2, ok := ref.(*ssa.Store); ok && s2.Addr == ssa.Value(al) {
								st, k = s2.Val, k+1
							}
						}
						if k == 1 {
							v = st
						}
					}
				}
			}
			src, _ := v.(*ssa.Call)
			var h *ssa.Function
			if src != nil {
				h = src.Call.StaticCallee()
			}
			if h != nil && p.InRepo(h) && returnsStorage(h) {
				o.Fail(load.FuncName(fn) + " sorts the slice it got from " + load.FuncName(h) + " in place, and that accessor hands out the object's own storage (a cached list / the child list), not a copy: the document is reordered by what should be a read - every later Families()/Nodes() and every view computed from it comes in the new order")
			} else {
				o.OK("a local, a copy, or the result of an accessor that builds a new slice")
			}
		}
	}
	_ = n
}

// c12DateDistance (R12.j): date similarity depends on the two dates only through their distance in years, and
// through an even function of it. In DateRange.Similarity every occurrence of the two operands - in what is
// returned and in every branch condition - is the difference Years(a)-Years(b) (either order) under a square or an
// absolute value; nothing else about the operands (their order in time, their start dates, validity) steers the
// score. Value descriptors are spelling-independent (resolved callees over parameters); locals do not matter.
func c12DateDistance(p *load.Prog, r *oblig.Run) {
	r.Rule("R12.j", "DateRange.Similarity uses its operands only through an even function of the distance in years", 1)
	fn := p.Method(load.PkgRoot, "DateRange", "Similarity")
	o := r.Add("R12.j", "operands of DateRange.Similarity", "-", "every use of the two dates")
	if fn == nil || len(fn.Blocks) == 0 || len(fn.Params) < 2 {
		o.Unknown("DateRange.Similarity not found")
		return
	}
	o.Pos = p.Pos(fn.Pos())
	env := &descEnv{p: p, params: map[*ssa.Parameter]string{}, noInline: true}
	var exprs []string
	for _, b := range fn.Blocks {
		switch t := b.Instrs[len(b.Instrs)-1].(type) {
		case *ssa.Return:
			for _, v := range t.Results {
				if ph, ok := v.(*ssa.Phi); ok {
					for _, e := range ph.Edges {
						exprs = append(exprs, env.desc(e, 0))
					}
					continue
				}
				exprs = append(exprs, env.desc(v, 0))
			}
		case *ssa.If:
			for _, f := range env.condFacts(t.Cond, true, 0) {
				exprs = append(exprs, f.atom)
			}
			if len(env.condFacts(t.Cond, true, 0)) == 0 {
				exprs = append(exprs, env.desc(t.Cond, 0))
			}
		}
	}
	d1 := "(DateRange.Years(p0)-DateRange.Years(p1))"
	d2 := "(DateRange.Years(p1)-DateRange.Years(p0))"
	operandRe := regexp.MustCompile(`\bp[01]\b`)
	bad, unknown := "", ""
	uses := 0
	_ = exprs
	// every returned value and both sides of every comparison, as polynomials in the year difference D
	var evalD func(v ssa.Value, d int) poly
	evalD = func(v ssa.Value, d int) poly {
		if d > 30 {
			unknown = "expression too deep"
			return polyConst(0)
		}
		if f, ok := floatConst(v); ok {
			return polyConst(f)
		}
		ds := env.desc(v, 0)
		switch ds {
		case d1:
			uses++
			return polySym("D")
		case d2:
			uses++
			return polySym("D").mul(polyConst(-1))
		}
		switch x := v.(type) {
		case *ssa.Convert:
			return evalD(x.X, d+1)
		case *ssa.ChangeType:
			return evalD(x.X, d+1)
		case *ssa.BinOp:
			switch x.Op {
			case token.ADD:
				return evalD(x.X, d+1).add(evalD(x.Y, d+1), 1)
			case token.SUB:
				return evalD(x.X, d+1).add(evalD(x.Y, d+1), -1)
			case token.MUL:
				return evalD(x.X, d+1).mul(evalD(x.Y, d+1))
			case token.QUO:
				den := evalD(x.Y, d+1)
				if len(den) == 1 {
					for k, c := range den {
						if k == "" && c != 0 {
							return evalD(x.X, d+1).mul(polyConst(1 / c))
						}
						if !strings.Contains(k, "D") && c != 0 {
							return evalD(x.X, d+1).mul(poly{"1/(" + k + ")": 1 / c})
						}
					}
				}
				unknown = "division by an expression of the distance"
				return polyConst(0)
			}
		case *ssa.Call:
			if cal := x.Call.StaticCallee(); cal != nil && cal.Pkg != nil && cal.Pkg.Pkg.Path() == "math" {
				switch cal.Name() {
				case "Pow":
					if k, ok := floatConst(x.Call.Args[1]); ok && k == 2 {
						a := evalD(x.Call.Args[0], d+1)
						return a.mul(a)
					}
				case "Abs":
					a := evalD(x.Call.Args[0], d+1)
					// |a| is even in D whenever a is odd or even in D: a fresh symbol that counts as even
					return polySym("abs<" + strings.ReplaceAll(polyString(a), "*", "·") + ">")
				}
			}
		}
		if strings.Contains(ds, "?") {
			unknown = ds
			return polyConst(0)
		}
		if operandRe.MatchString(ds) {
			bad = "the expression " + ds + " uses an operand otherwise than through the difference of the two Years() values"
			return polyConst(0)
		}
		return polySym(ds)
	}
	evenInD := func(a poly) bool {
		for k, c := range a {
			if c > 1e-12 || c < -1e-12 {
				n := 0
				for _, sy := range strings.Split(k, "*") {
					if sy == "D" {
						n++
					}
				}
				if n%2 != 0 {
					return false
				}
			}
		}
		return true
	}
	check := func(v ssa.Value, what string) {
		a := evalD(v, 0)
		if bad == "" && unknown == "" && !evenInD(a) {
			bad = "the distance in years is used signed in " + what + " " + polyString(a) + " (not under a square or an absolute value): the score then depends on the order of the operands"
		}
	}
	for _, b := range fn.Blocks {
		switch t := b.Instrs[len(b.Instrs)-1].(type) {
		case *ssa.Return:
			for _, v := range t.Results {
				if ph, ok := v.(*ssa.Phi); ok {
					for _, e := range ph.Edges {
						check(e, "the returned value")
					}
					continue
				}
				check(v, "the returned value")
			}
		case *ssa.If:
			c := t.Cond
			for {
				u, ok := c.(*ssa.UnOp)
				if !ok || u.Op != token.NOT {
					break
				}
				c = u.X
			}
			if bo, ok := c.(*ssa.BinOp); ok {
				check(bo.X, "a branch condition:")
				check(bo.Y, "a branch condition:")
			} else {
				ds := env.desc(c, 0)
				if operandRe.MatchString(ds) {
					bad = "the expression " + ds + " uses an operand otherwise than through the difference of the two Years() values"
				}
			}
		}
	}
	switch {
	case bad == "" && unknown != "":
		o.Unknown("an expression of DateRange.Similarity cannot be described: " + unknown)
	case bad != "":
		o.Fail(bad + ": date similarity is no longer a function of the distance alone (a.Similarity(b) != b.Similarity(a), or dates the same distance apart score differently)")
	case uses == 0:
		o.Unknown("DateRange.Similarity does not use the difference of the two Years() values")
	default:
		o.OK(fmt.Sprintf("%d use(s) of the operands, each the year difference under a square/absolute value", uses))
	}
}

// c06DecisionInputs (R06.i): the relation of two ranges is defined on their day intervals. DateRange.Compare and
// compareDatesForLetter decide it from the order of the (day-truncated) boundary times alone. A branch condition,
// or an end-of-range flag handed to the classification, that asks one of the library's *constraint- or
// granularity-aware* predicates about the operands (Date.Is ignores which end of the period is meant;
// Date/DateRange.Equals and IsExact look at Abt./Bef./Aft.; Years/IsBefore/IsAfter use the midpoint of a period;
// the constraint field itself) makes the relation depend on how the dates are written, not on the days they
// cover: two ranges over the same days then compare differently, self-comparison is no longer Equal, swapping the
// operands no longer gives the converse.
func c06DecisionInputs(p *load.Prog, r *oblig.Run) {
	r.Rule("R06.i", "Compare, compareDatesForLetter and the range constructors take no decision on constraint-, component- or midpoint-based predicates of the boundaries; the end-of-range flag is written only by NewDateRange", 4)
	forbidden := []string{"Date.Is(", "Date.Equals(", "DateRange.Equals(", "Date.IsExact(", "DateRange.IsExact(", "Date.Years(", "DateRange.Years(",
		"Date.IsBefore(", "Date.IsAfter(", "DateRange.IsBefore(", "DateRange.IsAfter(", "DateNode.", ".Constraint", "Date.IsPhrase(", "DateRange.IsPhrase(",
		".Day", ".Month", ".Year"}
	hit := func(e string) string {
		for _, f := range forbidden {
			if strings.Contains(e, f) {
				return strings.TrimSuffix(f, "(")
			}
		}
		return ""
	}
	// the end-of-range flag of a boundary: written by NewDateRange only (and set in the literals of the parser)
	ow := r.Add("R06.i", "writers of Date.IsEndOfRange", "-", "stores to the end-of-range flag after construction")
	var writers []string
	for _, fn := range p.Repo {
		if pkgPathOf(fn) != load.PkgRoot {
			continue
		}
		for _, b := range fn.Blocks {
			for _, ins := range b.Instrs {
				st, ok := ins.(*ssa.Store)
				if !ok {
					continue
				}
				fa, ok := st.Addr.(*ssa.FieldAddr)
				if !ok || su.FieldName(fa) != "IsEndOfRange" {
					continue
				}
				if owner := su.FieldOwner(fa); owner == nil || owner.Obj().Name() != "Date" {
					continue
				}
				// a composite literal being filled (fresh local that is not a parameter copy)
				if al, isAl := fa.X.(*ssa.Alloc); isAl {
					fromParam := false
					for _, ref := range *al.Referrers() {
						if s2, ok := ref.(*ssa.Store); ok && s2.Addr == ssa.Value(al) {
							if _, isP := s2.Val.(*ssa.Parameter); isP {
								fromParam = true
							} else if _, isK := s2.Val.(*ssa.Const); !isK {
								fromParam = true // a copy of some existing date
							}
						}
					}
					if !fromParam {
						continue
					}
				}
				if fn.Name() != "NewDateRange" {
					writers = append(writers, load.FuncName(fn)+" at "+p.Pos(st.Pos()))
				}
			}
		}
	}
	if len(writers) > 0 {
		ow.Fail("the end-of-range flag of an existing date is rewritten outside NewDateRange (" + strings.Join(writers, "; ") + "): a boundary whose flag is cleared or set afterwards stands for the other end of its month/year - the day interval the comparison works on is no longer the one the range was built with")
	} else {
		ow.OK("only NewDateRange assigns the flag of an existing date")
	}
	cmpLetter := p.Func(load.PkgRoot, "compareDatesForLetter")
	for _, fn := range []*ssa.Function{p.Method(load.PkgRoot, "DateRange", "Compare"), cmpLetter, p.Func(load.PkgRoot, "NewDateRange"), p.Func(load.PkgRoot, "NewDateRangeWithString")} {
		if fn == nil || len(fn.Blocks) == 0 {
			r.Add("R06.i", "anchor", "-", "anchor").Unknown("DateRange.Compare / compareDatesForLetter not found")
			continue
		}
		o := r.Add("R06.i", "decision inputs of "+load.FuncName(fn), p.Pos(fn.Pos()), "branch conditions and end-of-range flags")
		env := &descEnv{p: p, params: map[*ssa.Parameter]string{}, noInline: true}
		bad := ""
		n := 0
		for _, b := range fn.Blocks {
			for _, ins := range b.Instrs {
				switch x := ins.(type) {
				case *ssa.If:
					n++
					e := env.desc(x.Cond, 0)
					for _, f := range env.condFacts(x.Cond, true, 0) {
						e += " " + f.atom
					}
					if h := hit(e); h != "" {
						bad = "the branch at " + p.Pos(x.Cond.Pos()) + " asks " + h + " about the operands"
					}
				case *ssa.Call:
					if cmpLetter != nil && x.Call.StaticCallee() == cmpLetter && len(x.Call.Args) == 4 {
						n++
						if _, isK := x.Call.Args[3].(*ssa.Const); !isK {
							if h := hit(env.desc(x.Call.Args[3], 0)); h != "" {
								bad = "the end-of-range flag handed to the classification at " + p.Pos(x.Pos()) + " is " + h + " of an operand"
							}
						}
					}
				}
			}
		}
		if bad != "" {
			o.Fail(bad + ": the predicate depends on how a date is written (constraint, precision, midpoint), not on the days it covers - the relation of two ranges is no longer a function of their day intervals")
		} else {
			o.OK(fmt.Sprintf("%d decision point(s); none asks a constraint- or granularity-aware predicate", n))
		}
	}
}

// ---- R12.k: the name/date mix is a convex combination ----

type poly map[string]float64

func polyConst(c float64) poly { return poly{"": c} }
func polySym(s string) poly    { return poly{s: 1} }
func (a poly) add(b poly, sign float64) poly {
	out := poly{}
	for k, v := range a {
		out[k] += v
	}
	for k, v := range b {
		out[k] += sign * v
	}
	return out
}
func (a poly) mul(b poly) poly {
	out := poly{}
	for k1, v1 := range a {
		for k2, v2 := range b {
			var syms []string
			if k1 != "" {
				syms = append(syms, strings.Split(k1, "*")...)
			}
			if k2 != "" {
				syms = append(syms, strings.Split(k2, "*")...)
			}
			sort.Strings(syms)
			out[strings.Join(syms, "*")] += v1 * v2
		}
	}
	return out
}
func (a poly) isConst(c float64) bool {
	for k, v := range a {
		if k == "" {
			if v-c > 1e-9 || c-v > 1e-9 {
				return false
			}
			continue
		}
		if v > 1e-9 || v < -1e-9 {
			return false
		}
	}
	if _, ok := a[""]; !ok && (c > 1e-9 || c < -1e-9) {
		return false
	}
	return true
}

// c12Convex (R12.k): the score of two individuals is a weighted mean of its components - with every component
// similarity set to 1 the returned expression is identically 1 (whatever the ratio option is), with every component
// set to 0 it is 0. Otherwise identical individuals do not score 1 or the score leaves [0,1] for some ratio. The
// returned expression is read as a polynomial over the option fields; components are the values that come from
// *Similarity calls (through the running maximum of the name matrix). Also: the default weights of the
// surrounding similarity sum to 1.
func c12Convex(p *load.Prog, r *oblig.Run) {
	r.Rule("R12.k", "the name/date mix of IndividualNode.Similarity is a convex combination for every ratio (components all 1 -> 1, all 0 -> 0); the default surrounding weights sum to 1", 2)
	fn := p.Method(load.PkgRoot, "IndividualNode", "Similarity")
	o := r.Add("R12.k", "mix of name and date similarity in IndividualNode.Similarity", "-", "weights of the final calculation")
	if fn == nil || len(fn.Blocks) == 0 {
		o.Unknown("IndividualNode.Similarity not found")
	} else {
		o.Pos = p.Pos(fn.Pos())
		env := &descEnv{p: p, params: map[*ssa.Parameter]string{}, noInline: true}
		isComponent := func(v ssa.Value) bool {
			seen := map[ssa.Value]bool{}
			var rec func(v ssa.Value) bool
			rec = func(v ssa.Value) bool {
				if seen[v] {
					return false
				}
				seen[v] = true
				switch x := v.(type) {
				case *ssa.Call:
					if cal := x.Call.StaticCallee(); cal != nil && strings.Contains(cal.Name(), "Similarity") {
						return true
					}
				case *ssa.Phi:
					for _, e := range x.Edges {
						if rec(e) {
							return true
						}
					}
				}
				return false
			}
			return rec(v)
		}
		var undec string
		var eval func(v ssa.Value, comp float64, d int) poly
		eval = func(v ssa.Value, comp float64, d int) poly {
			if d > 30 {
				undec = "expression too deep"
				return polyConst(0)
			}
			if f, ok := floatConst(v); ok {
				return polyConst(f)
			}
			if isComponent(v) {
				return polyConst(comp)
			}
			switch x := v.(type) {
			case *ssa.BinOp:
				a, b := eval(x.X, comp, d+1), eval(x.Y, comp, d+1)
				switch x.Op {
				case token.ADD:
					return a.add(b, 1)
				case token.SUB:
					return a.add(b, -1)
				case token.MUL:
					return a.mul(b)
				case token.QUO:
					if len(b) == 1 {
						if c, ok := b[""]; ok && c != 0 {
							return a.mul(polyConst(1 / c))
						}
					}
					undec = "division by a non-constant"
					return polyConst(0)
				}
			case *ssa.Convert:
				return eval(x.X, comp, d+1)
			case *ssa.ChangeType:
				return eval(x.X, comp, d+1)
			}
			s := env.desc(v, 0)
			if strings.Contains(s, "?") {
				undec = "a value that cannot be described (" + v.String() + ")"
			}
			return polySym(s)
		}
		bad := ""
		n := 0
		for _, b := range fn.Blocks {
			ret, ok := b.Instrs[len(b.Instrs)-1].(*ssa.Return)
			if !ok || len(ret.Results) != 1 {
				continue
			}
			if _, isK := floatConst(ret.Results[0]); isK {
				continue // the neutral answers (R12.a)
			}
			n++
			one, zero := eval(ret.Results[0], 1, 0), eval(ret.Results[0], 0, 0)
			if !one.isConst(1) {
				bad = fmt.Sprintf("with every component similarity equal to 1 the mix is %v, not 1", polyString(one))
			} else if !zero.isConst(0) {
				bad = fmt.Sprintf("with every component similarity equal to 0 the mix is %v, not 0", polyString(zero))
			}
		}
		switch {
		case undec != "" && bad == "":
			o.Unknown(undec)
		case bad != "":
			o.Fail(bad + ": the weights of the name and the two dates do not sum to 1 for every NameToDateRatio - identical individuals do not score 1, or the score exceeds 1 (individuals, lists, families and the weighted similarity built on it)")
		case n == 0:
			o.Unknown("no computed return found")
		default:
			o.OK("components all 1 -> 1 and all 0 -> 0 for every value of the options")
		}
	}
	// default weights
	o2 := r.Add("R12.k", "default weights of the surrounding similarity", "-", "IndividualWeight + ParentsWeight + SpousesWeight + ChildrenWeight")
	mk := p.Func(load.PkgRoot, "NewSimilarityOptions")
	if mk == nil {
		o2.Unknown("NewSimilarityOptions not found")
		return
	}
	o2.Pos = p.Pos(mk.Pos())
	sum, nw := 0.0, 0
	for _, b := range mk.Blocks {
		for _, ins := range b.Instrs {
			st, ok := ins.(*ssa.Store)
			if !ok {
				continue
			}
			fa, ok := st.Addr.(*ssa.FieldAddr)
			if !ok {
				continue
			}
			switch su.FieldName(fa) {
			case "IndividualWeight", "ParentsWeight", "SpousesWeight", "ChildrenWeight":
				if f, isK := floatConst(st.Val); isK {
					sum += f
					nw++
				} else {
					nw = -100
				}
			}
		}
	}
	switch {
	case nw < 0:
		o2.Unknown("a default weight is not a constant")
	case nw != 4:
		o2.Fail(fmt.Sprintf("NewSimilarityOptions sets %d of the four weights: the weighted similarity of identical surroundings is not 1", nw))
	case sum-1 > 1e-9 || 1-sum > 1e-9:
		o2.Fail(fmt.Sprintf("the default weights sum to %g, not 1: the weighted similarity of two identical individuals with identical surroundings is not 1 (or exceeds 1)", sum))
	default:
		o2.OK("the four default weights sum to 1")
	}
}

func polyString(a poly) string {
	var ks []string
	for k := range a {
		ks = append(ks, k)
	}
	sort.Strings(ks)
	var parts []string
	for _, k := range ks {
		if v := a[k]; v > 1e-9 || v < -1e-9 {
			if k == "" {
				parts = append(parts, fmt.Sprintf("%g", v))
			} else {
				parts = append(parts, fmt.Sprintf("%g*%s", v, k))
			}
		}
	}
	if len(parts) == 0 {
		return "0"
	}
	return strings.Join(parts, " + ")
}

// c04PatternFirst (R04.x): the documented date grammar *is* the pattern. parseDateParts and
// NewDateRangeWithString decide nothing about a text before they have matched it against the pattern: a call of
// FindStringSubmatch dominates every return (an early exit for the empty text excepted). A shortcut in front of the
// pattern - a fast path for plain years that accepts what strconv accepts, a length limit computed for the wrong
// longest sentence - makes texts valid or invalid that the grammar does not.
func c04PatternFirst(p *load.Prog, r *oblig.Run) {
	r.Rule("R04.x", "the date parsers return only after the text was matched against the date pattern (no shortcut in front of the grammar)", 2)
	for _, name := range []string{"parseDateParts", "NewDateRangeWithString"} {
		fn := p.Func(load.PkgRoot, name)
		o := r.Add("R04.x", "returns of "+name, "-", "pattern match before every return")
		if fn == nil || len(fn.Blocks) == 0 {
			o.Unknown(name + " not found")
			continue
		}
		o.Pos = p.Pos(fn.Pos())
		var matches []ssa.Instruction
		var doesMatch func(h *ssa.Function, d int) bool
		doesMatch = func(h *ssa.Function, d int) bool {
			if h == nil || d > 2 {
				return false
			}
			if h.Pkg != nil && h.Pkg.Pkg.Path() == "regexp" && (strings.HasPrefix(h.Name(), "Find") || strings.HasPrefix(h.Name(), "Match")) {
				return true
			}
			if !p.InRepo(h) || len(h.Blocks) == 0 {
				return false
			}
			// a helper that matches on every path before it returns
			for _, c2 := range su.Calls(h) {
				if doesMatch(c2.Common().StaticCallee(), d+1) {
					all := true
					for _, b2 := range h.Blocks {
						if ret, ok := b2.Instrs[len(b2.Instrs)-1].(*ssa.Return); ok && b2 != h.Recover && !su.Dominates(c2, ret) {
							all = false
						}
					}
					if all {
						return true
					}
				}
			}
			return false
		}
		for _, c := range su.Calls(fn) {
			if cal := c.Common().StaticCallee(); cal != fn && doesMatch(cal, 0) {
				matches = append(matches, c)
			}
		}
		if len(matches) == 0 {
			o.Unknown(name + " does not match its text against a pattern itself")
			continue
		}
		env := &descEnv{p: p, params: map[*ssa.Parameter]string{}, noInline: true}
		bad := ""
		n := 0
		for _, b := range fn.Blocks {
			ret, ok := b.Instrs[len(b.Instrs)-1].(*ssa.Return)
			if !ok || b == fn.Recover {
				continue
			}
			n++
			dom := false
			for _, m := range matches {
				if su.Dominates(m, ret) {
					dom = true
				}
			}
			if dom {
				continue
			}
			empty := env.holdsAny(b, func(f cfact) bool {
				return f.val && (f.atom == "\"\"==p0" || f.atom == "0==len(p0)" || strings.HasPrefix(f.atom, "\"\"==CleanSpace(p0)"))
			})
			if !empty {
				bad = "the return at " + p.Pos(ret.Pos()) + " is reached without the text having been matched against the pattern"
			}
		}
		if bad != "" {
			o.Fail(bad + ": what this path accepts or rejects is decided by something other than the documented grammar (strconv accepts signs and the pattern does not; a length limit cuts off long documented sentences)")
		} else {
			o.OK(fmt.Sprintf("%d return(s), each after the pattern match", n))
		}
	}
}

// globalScratch (part of the memo rule): a function of the library package that is not an initialiser writes a
// package-level variable only if the variable is one of the reviewed process-wide tables (the children-by-tag
// cache that the node edits reset, the tag registry filled at initialisation). Any other package-level variable
// written at run time is scratch state shared by every caller: two goroutines in the function at once (workers of
// Compare, of the publisher) overwrite each other's values, and the result of a pure function depends on who else
// is running.
func globalScratch(p *load.Prog, r *oblig.Run, rule string) {
	reviewed := map[string]string{
		"nodeCache": "the children-by-tag cache: replaced wholesale by the node edits (a pointer store of a fresh sync.Map)",
		"knownTags": "the tag registry: filled by newTag during package initialisation",
	}
	type site struct {
		fn  *ssa.Function
		pos token.Pos
	}
	found := map[string][]site{}
	for _, fn := range p.Repo {
		pk := pkgPathOf(fn)
		if pk != load.PkgRoot && pk != load.PkgUtil {
			continue
		}
		top := fn
		for top.Parent() != nil {
			top = top.Parent()
		}
		if top.Name() == "init" || strings.HasPrefix(top.Name(), "init#") {
			continue
		}
		for _, b := range fn.Blocks {
			for _, ins := range b.Instrs {
				var addr ssa.Value
				switch x := ins.(type) {
				case *ssa.Store:
					addr = x.Addr
				case *ssa.MapUpdate:
					addr = x.Map
				default:
					continue
				}
				var g *ssa.Global
				for i := 0; i < 6 && addr != nil; i++ {
					switch y := addr.(type) {
					case *ssa.Global:
						g = y
						addr = nil
					case *ssa.IndexAddr:
						addr = y.X
					case *ssa.FieldAddr:
						addr = y.X
					case *ssa.UnOp:
						if y.Op == token.MUL {
							if gg, ok := y.X.(*ssa.Global); ok {
								// a store through a pointer/map/slice held in a package variable
								g = gg
							}
						}
						addr = nil
					default:
						addr = nil
					}
				}
				if g == nil || g.Pkg == nil || (g.Pkg.Pkg.Path() != load.PkgRoot && g.Pkg.Pkg.Path() != load.PkgUtil) {
					continue
				}
				found[g.Name()] = append(found[g.Name()], site{fn, ins.Pos()})
			}
		}
	}
	var names []string
	for k := range found {
		names = append(names, k)
	}
	sort.Strings(names)
	for _, k := range names {
		o := r.Add(rule, "run-time writes of package variable "+k, p.Pos(found[k][0].pos), "package-level state written outside initialisation")
		var where []string
		for _, s := range found[k] {
			if k == "knownTags" && s.fn.Name() == "newTag" {
				continue // the registry is filled by newTag, which only package initialisers call (registry invariant, R01.c)
			}
			where = append(where, load.FuncName(s.fn)+" at "+p.Pos(s.pos))
		}
		if why, ok := reviewed[k]; ok && (k != "knownTags" || len(where) == 0) {
			o.OK("reviewed: " + why)
			continue
		}
		o.Fail("the package-level variable " + k + " is written at run time (" + strings.Join(where, "; ") + "): it is shared by every caller of that function - concurrent callers (the workers of Compare and of the publisher) overwrite each other's value and a function of two dates/strings answers with a mix of both calls (wrong relation, score of another pair), apart from the data race")
	}
}

// bitMarks (R07.k / R12.l): a set of list positions is not kept in a machine word. A shift `1 << i` whose count
// is a position in a list (a loop counter bounded by len(...), a range index) wraps to nothing from position 64
// on: positions beyond it are never marked, so a right-hand child / a character of the other string can be paired
// twice - equality and similarity become asymmetric for long lists and long strings only.
func bitMarks(p *load.Prog, r *oblig.Run, rule string) {
	r.Rule(rule, "no set of list positions is kept as bits of a machine word (a shift by a list index wraps from position 64 on)", 0)
	n := 0
	for _, fn := range p.Repo {
		if pkgPathOf(fn) != load.PkgRoot {
			continue
		}
		for _, b := range fn.Blocks {
			for _, ins := range b.Instrs {
				bo, ok := ins.(*ssa.BinOp)
				if !ok || bo.Op != token.SHL {
					continue
				}
				if _, isK := bo.Y.(*ssa.Const); isK {
					continue
				}
				// the count: a position in a list?
				v := bo.Y
				for i := 0; i < 4; i++ {
					if cv, ok := v.(*ssa.Convert); ok {
						v = cv.X
					} else if ct, ok := v.(*ssa.ChangeType); ok {
						v = ct.X
					}
				}
				listIndex := false
				var walk func(x ssa.Value, d int)
				seen := map[ssa.Value]bool{}
				walk = func(x ssa.Value, d int) {
					if d > 6 || seen[x] || x.Referrers() == nil {
						return
					}
					seen[x] = true
					for _, ref := range *x.Referrers() {
						switch y := ref.(type) {
						case *ssa.BinOp:
							if y.Op == token.LSS || y.Op == token.GEQ {
								if of, isLen := lenArg(y.Y); isLen && of != nil {
									listIndex = true
								}
							}
							if y.Op == token.ADD {
								walk(y, d+1)
							}
						case *ssa.Phi:
							walk(y, d+1)
						case *ssa.IndexAddr:
							if y.Index == x {
								listIndex = true
							}
						case *ssa.Index:
							if y.Index == x {
								listIndex = true
							}
						}
					}
				}
				walk(v, 0)
				if ph, isPhi := v.(*ssa.Phi); isPhi {
					for _, e := range ph.Edges {
						walk(e, 1)
					}
				}
				if !listIndex {
					continue
				}
				n++
				r.Add(rule, fmt.Sprintf("shift by a list position in %s #%d", load.FuncName(fn), n), p.Pos(bo.Pos()), "bit set over list positions").
					Fail("a bit mask is indexed by a position in a list (shift count " + bo.Y.Name() + " is a list index): for positions 64 and above the shift gives 0, nothing is marked and the same element can be used twice - lists/strings longer than 64 compare differently from short ones (and differently in the two directions)")
			}
		}
	}
	if n == 0 {
		r.Add(rule, "bit sets over list positions", "-", "scan of the library package").OK("no shift by a list position in the library package")
	}
}
