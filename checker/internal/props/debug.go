package props

import (
	"fmt"
	"sort"
	"strings"

	"gedverif/internal/cg"
	"gedverif/internal/load"

	"golang.org/x/tools/go/ssa"
)

func lookupFunc(p *load.Prog, pkg, name string) *ssa.Function {
	if pkg == "" || pkg == "." {
		pkg = load.PkgRoot
	} else if !strings.HasPrefix(pkg, load.Module) {
		pkg = load.Module + "/" + pkg
	}
	if i := strings.Index(name, "."); i >= 0 {
		return p.Method(pkg, name[:i], name[i+1:])
	}
	return p.Func(pkg, name)
}

var debugHooks = map[string]func(p *load.Prog, parts []string){}

// Debug answers ad-hoc queries (development aid).
func Debug(q string) {
	parts := strings.Split(q, ":")
	p := load.Load(true)
	if h, ok := debugHooks[parts[0]]; ok {
		h(p, parts)
		return
	}
	switch parts[0] {
	case "reach", "reachcha":
		g := cg.New(p, parts[0] == "reachcha")
		fn := lookupFunc(p, parts[1], parts[2])
		if fn == nil {
			fmt.Println("not found")
			return
		}
		r := g.ReachFrom([]cg.Target{{Fn: fn}}, cg.Options{})
		real := 0
		var names []string
		for f := range r.Funcs {
			if f.Synthetic == "" {
				real++
			}
			names = append(names, load.FuncName(f))
		}
		sort.Strings(names)
		fmt.Printf("reachable: %d functions (%d non-synthetic), %d contexts\n", len(r.Funcs), real, len(r.Nodes))
		if len(parts) > 3 {
			if parts[3] == "list" {
				for _, n := range names {
					fmt.Println(" ", n)
				}
			} else {
				for f := range r.Funcs {
					if strings.Contains(load.FuncName(f), parts[3]) {
						fmt.Println(load.FuncName(f))
						for _, s := range r.Path(f) {
							fmt.Println("    ", s)
						}
					}
				}
			}
		}
	}
}

func init() { debugHooks["panics"] = debugPanics }

func init() {
	debugHooks["reflect"] = func(p *load.Prog, parts []string) {
		g := cg.New(p, false)
		ts := g.ReflectTargets()
		fmt.Println(len(ts))
		for i, f := range ts {
			if i < 15 {
				fmt.Println(" ", f.String(), f.Object() != nil, f.Synthetic)
			}
		}
	}
}
