package props

import (
	"fmt"
	"go/constant"
	"go/token"
	"go/types"
	"sort"
	"strings"

	"gedverif/internal/cg"
	"gedverif/internal/load"
	"gedverif/internal/oblig"
	"gedverif/internal/su"

	"golang.org/x/tools/go/ssa"
)

// Non-progressing cycles ("may hang" class of E1).
//
// A cycle through a loop header is non-progressing when (1) nothing on it can
// change state - no call other than len/cap/min/max, no store, map update,
// send, receive, range advance, go or defer - and (2) none of the branch tests
// taken on it depends on a loop variable that the cycle changes. Once such a
// cycle is taken, the same tests are evaluated on the same values again and it
// is taken for ever. Every loop of every reachable function is an obligation.

func pureInstr(ins ssa.Instruction) bool {
	switch x := ins.(type) {
	case *ssa.Call:
		if b, ok := x.Call.Value.(*ssa.Builtin); ok {
			switch b.Name() {
			case "len", "cap", "min", "max", "real", "imag", "complex":
				return true
			}
		}
		return false
	case *ssa.Store, *ssa.MapUpdate, *ssa.Send, *ssa.Go, *ssa.Defer, *ssa.RunDefers, *ssa.Select, *ssa.Next, *ssa.Panic, *ssa.Return:
		return false
	case *ssa.UnOp:
		return x.Op != token.ARROW
	}
	return true
}

func hangObligations(p *load.Prog, r *oblig.Run, rule string, g *cg.Graph, entries []*ssa.Function, floor int) {
	r.Rule(rule, "no reachable loop contains a cycle that changes nothing its own branch tests depend on (such a cycle, once taken, is taken for ever)", floor)
	var ts []cg.Target
	for _, e := range entries {
		ts = append(ts, cg.Target{Fn: e})
	}
	reach := g.ReachFrom(ts, cg.Options{})
	var fns []*ssa.Function
	for f := range reach.Funcs {
		if p.IsRepoFunc(f) && len(f.Blocks) > 0 {
			fns = append(fns, f)
		}
	}
	sort.Slice(fns, func(i, j int) bool { return fns[i].String() < fns[j].String() })
	familyCycleObligations(p, r, rule, fns)
	for _, fn := range fns {
		// a call of the function to itself that hands on exactly its own parameters repeats the same call for ever (the
		// stack overflow that ends it cannot be recovered)
		selfCalls := 0
		for _, c := range su.Calls(fn) {
			if _, isGo := c.(*ssa.Go); isGo {
				continue
			}
			cc := c.Common()
			if cc.StaticCallee() != fn || len(cc.Args) != len(fn.Params) || len(fn.Params) == 0 {
				continue
			}
			selfCalls++
			same := true
			for i, a := range cc.Args {
				if a != ssa.Value(fn.Params[i]) {
					same = false
				}
			}
			if same {
				// progress through state: the function changes something reachable from a parameter (a parser that
				// advances its position, a counter in the engine), or calls something that can, before it recurses
				reachCall := map[*ssa.BasicBlock]bool{}
				for _, b := range fn.Blocks {
					if b == c.Block() || su.ReachableBlocks(b)[c.Block()] {
						reachCall[b] = true
					}
				}
				rooted := func(v ssa.Value) bool {
					for d := 0; d < 8; d++ {
						switch x := v.(type) {
						case *ssa.Parameter:
							return true
						case *ssa.FieldAddr:
							v = x.X
						case *ssa.IndexAddr:
							v = x.X
						case *ssa.UnOp:
							v = x.X
						default:
							return false
						}
					}
					return false
				}
				for b := range reachCall {
					for _, ins := range b.Instrs {
						switch x := ins.(type) {
						case *ssa.Store:
							if rooted(x.Addr) {
								same = false
							}
						case *ssa.MapUpdate:
							if rooted(x.Map) {
								same = false
							}
						case ssa.CallInstruction:
							if ins == c.(ssa.Instruction) {
								continue
							}
							// a call that is handed a pointer parameter (or the receiver) may advance state
							if _, isBuiltin := x.Common().Value.(*ssa.Builtin); isBuiltin {
								continue
							}
							cal := x.Common().StaticCallee()
							if cal != nil && !p.IsRepoFunc(cal) {
								continue // library calls (reflect, fmt) do not change the query state
							}
							operands := append([]ssa.Value{}, x.Common().Args...)
							if x.Common().IsInvoke() {
								operands = append(operands, x.Common().Value)
							}
							for _, a := range operands {
								if _, isPtr := a.Type().Underlying().(*types.Pointer); isPtr && rooted(a) {
									same = false
								}
							}
						}
					}
				}
			}
			o := r.Add(rule, fmt.Sprintf("self-call #%d in %s", selfCalls, load.FuncName(fn)), p.Pos(c.Pos()), "arguments of a recursive call")
			// recursion that follows the links between people and families: those links can form a cycle in a file (A is
			// the parent of B in one family and B the parent of A in another), unlike the node tree
			if link := followsFamilyLink(cc.Args, 0); !same && link != "" {
				o.Fail(load.FuncName(fn) + " calls itself on the result of " + link + ": links between individuals and families can be cyclic in a file, so the recursion has no bound - it ends in a stack overflow, a fatal error no recover can stop")
				continue
			}
			if same {
				o.Fail(load.FuncName(fn) + " calls itself with exactly the parameters it was called with: once that call is reached the recursion never ends - the goroutine's stack overflows, which is a fatal error no recover can stop")
			} else {
				o.OK("at least one argument differs from the function's own parameter")
			}
		}
		// an Error()/String() method that hands its own receiver to a fmt function: fmt calls that very method to print
		// the value, which formats the receiver again - a recursion without end (go vet's printf check; the suite runs
		// with -vet=off)
		if (fn.Name() == "Error" || fn.Name() == "String") && fn.Signature.Recv() != nil && len(fn.Params) == 1 {
			nFmt := 0
			for _, c := range su.Calls(fn) {
				cal := c.Common().StaticCallee()
				if cal == nil || cal.Pkg == nil || cal.Pkg.Pkg.Path() != "fmt" {
					continue
				}
				// the verbs of a constant format: only %v, %s and %q (without #) print through Error()/String()
				var verbs []string
				hasFormat := strings.HasSuffix(cal.Name(), "f")
				if hasFormat {
					found := false
					for _, a := range c.Common().Args {
						if f, isK := su.ConstString(a); isK {
							verbs, found = fmtVerbs(f), true
						}
					}
					if !found {
						continue
					}
				}
				for _, a := range c.Common().Args {
					elems, ok := variadicElems(a)
					if !ok {
						continue
					}
					for ei, e := range elems {
						if hasFormat {
							if ei >= len(verbs) || !(verbs[ei] == "v" || verbs[ei] == "s" || verbs[ei] == "q") {
								continue
							}
						}
						mi, isMI := e.(*ssa.MakeInterface)
						if !isMI {
							continue
						}
						v := mi.X
						// the receiver itself, or a copy of a value receiver loaded from its local
						self := v == ssa.Value(fn.Params[0])
						if ld, isLd := v.(*ssa.UnOp); isLd && ld.Op == token.MUL {
							if al, isAl := ld.X.(*ssa.Alloc); isAl {
								for _, ref := range *al.Referrers() {
									if st, isSt := ref.(*ssa.Store); isSt && st.Addr == ssa.Value(al) && st.Val == ssa.Value(fn.Params[0]) {
										self = true
									}
								}
							}
						}
						if self {
							nFmt++
							r.Add(rule, fmt.Sprintf("self-format #%d in %s", nFmt, load.FuncName(fn)), p.Pos(c.Pos()), "receiver handed to fmt inside its own "+fn.Name()+" method").Fail(load.FuncName(fn) + " passes its own receiver to " + cal.Name() + ": fmt prints a value that has an " + fn.Name() + "() method by calling it, so the method calls itself without end - a stack overflow, which no recover can stop")
						}
					}
				}
			}
		}
		hs := loopHeaders(fn)
		for hi, h := range hs {
			key := fmt.Sprintf("loop #%d in %s", hi+1, load.FuncName(fn))
			pos := p.Pos(fn.Pos())
			for _, ins := range h.Instrs {
				if ins.Pos().IsValid() {
					pos = p.Pos(ins.Pos())
					break
				}
			}
			o := r.Add(rule, key, pos, "loop")
			cycles, capped := simplePaths(h, map[*ssa.BasicBlock]bool{h: true}, 3000)
			bad := ""
			n := 0
			for _, cyc := range cycles {
				if cyc[len(cyc)-1] != h || len(cyc) < 2 {
					continue
				}
				n++
				if !feasible(cyc) {
					continue
				}
				body := cyc[:len(cyc)-1]
				pure := true
				for _, b := range body {
					for _, ins := range b.Instrs {
						if !pureInstr(ins) {
							pure = false
							break
						}
					}
					if !pure {
						break
					}
				}
				if !pure {
					continue
				}
				// path predecessor map for resolving phis along the cycle (the header is entered from the last body block)
				pred := map[*ssa.BasicBlock]*ssa.BasicBlock{}
				for i := 1; i < len(body); i++ {
					pred[body[i]] = body[i-1]
				}
				pred[h] = body[len(body)-1]
				onCycle := map[*ssa.BasicBlock]bool{}
				for _, b := range body {
					onCycle[b] = true
				}
				// the value a phi takes when the cycle is taken once more
				next := func(ph *ssa.Phi) ssa.Value {
					pr := pred[ph.Block()]
					for i, q := range ph.Block().Preds {
						if q == pr {
							return ph.Edges[i]
						}
					}
					return nil
				}
				// unchanged(v): v has the same value in the next round of the cycle
				memo := map[ssa.Value]int{} // 1 unchanged, 2 changed, 3 in progress
				var unchanged func(v ssa.Value) bool
				unchanged = func(v ssa.Value) bool {
					switch memo[v] {
					case 1:
						return true
					case 2:
						return false
					case 3:
						return true // cyclic dependency among phis that only copy each other
					}
					memo[v] = 3
					res := true
					switch x := v.(type) {
					case *ssa.Const, *ssa.Parameter, *ssa.FreeVar, *ssa.Global, *ssa.Function, *ssa.Builtin:
						res = true
					case *ssa.Phi:
						if !onCycle[x.Block()] {
							res = true // defined outside the cycle: invariant
						} else if x.Block() == h {
							nv := next(x)
							if nv == nil {
								res = false
							} else if nv == ssa.Value(x) {
								res = true
							} else {
								// resolves (through phis inside the body) to the header phi itself?
								cur := nv
								res = false
								for i := 0; i < 10; i++ {
									if cur == ssa.Value(x) {
										res = true
										break
									}
									ph2, ok := cur.(*ssa.Phi)
									if !ok || !onCycle[ph2.Block()] || ph2.Block() == h {
										if k1, ok := cur.(*ssa.Const); ok {
											_ = k1
										}
										break
									}
									cur = next(ph2)
									if cur == nil {
										break
									}
								}
							}
						} else {
							nv := next(x)
							res = nv != nil && unchanged(nv)
						}
					case ssa.Instruction:
						if !onCycle[x.Block()] {
							res = true // computed before the loop
						} else {
							for _, op := range x.Operands(nil) {
								if *op != nil && !unchanged(*op) {
									res = false
									break
								}
							}
						}
					}
					if res {
						memo[v] = 1
					} else {
						memo[v] = 2
					}
					return res
				}
				// path-sensitive feasibility: a test on a value that the path itself fixes to a constant (a flag set on the way)
				infeasible := false
				for i, b := range body {
					iff, ok := b.Instrs[len(b.Instrs)-1].(*ssa.If)
					if !ok {
						continue
					}
					var nxt *ssa.BasicBlock
					if i+1 < len(body) {
						nxt = body[i+1]
					} else {
						nxt = h
					}
					cond := iff.Cond
					neg := false
					for k := 0; k < 10; k++ {
						if u, isNot := cond.(*ssa.UnOp); isNot && u.Op == token.NOT {
							cond, neg = u.X, !neg
							continue
						}
						if ph, isPhi := cond.(*ssa.Phi); isPhi && onCycle[ph.Block()] && ph.Block() != h {
							if nv := next(ph); nv != nil {
								cond = nv
								continue
							}
						}
						break
					}
					if kc, isK := cond.(*ssa.Const); isK && kc.Value != nil && kc.Value.Kind() == constant.Bool {
						want := constant.BoolVal(kc.Value) != neg
						took := nxt == b.Succs[0]
						if want != took {
							infeasible = true
						}
					}
				}
				if infeasible {
					continue
				}
				dependsOnChange := false
				for _, b := range body {
					if iff, ok := b.Instrs[len(b.Instrs)-1].(*ssa.If); ok {
						if !unchanged(iff.Cond) {
							dependsOnChange = true
							break
						}
					}
				}
				if !dependsOnChange {
					var idx []string
					for _, b := range cyc {
						idx = append(idx, fmt.Sprintf("%d(%s)", b.Index, b.Comment))
					}
					bad = "the cycle through blocks " + strings.Join(idx, " -> ") + " changes nothing that its own branch tests depend on (no call, store or channel operation, and the loop variables its tests read keep their values): once it is taken the loop never ends"
					break
				}
			}
			switch {
			case capped:
				o.OK("more than 3000 cycles: not examined for non-progress (the loop body is full of calls)")
			case bad != "":
				o.Fail(bad)
			default:
				o.OK(fmt.Sprintf("%d cycle(s): each calls, stores, communicates, or changes a variable one of its tests reads", n))
			}
		}
	}
}

// followsFamilyLink: one of the values derives (through element loads, extracts, phis and further calls) from a
// relationship accessor of the library; returns its name.
func followsFamilyLink(vs []ssa.Value, depth int) string {
	links := map[string]bool{"Children": true, "Parents": true, "Spouses": true, "Families": true, "Individual": true, "Father": true, "Mother": true,
		"Husband": true, "Wife": true, "SpouseChildren": true, "Siblings": true, "Family": true}
	seen := map[ssa.Value]bool{}
	var walk func(v ssa.Value, d int) string
	walk = func(v ssa.Value, d int) string {
		if d > 10 || seen[v] {
			return ""
		}
		seen[v] = true
		switch x := v.(type) {
		case *ssa.Call:
			cal := x.Call.StaticCallee()
			name := ""
			if cal != nil {
				name = cal.Name()
				if cal.Pkg == nil || !load.IsRepoPkgPath(cal.Pkg.Pkg.Path()) {
					return ""
				}
			} else if x.Call.IsInvoke() {
				name = x.Call.Method.Name()
			}
			if links[name] {
				return name + "()"
			}
			for _, a := range x.Call.Args {
				if r := walk(a, d+1); r != "" {
					return r
				}
			}
		case *ssa.UnOp:
			return walk(x.X, d+1)
		case *ssa.IndexAddr:
			return walk(x.X, d+1)
		case *ssa.Index:
			return walk(x.X, d+1)
		case *ssa.Extract:
			return walk(x.Tuple, d+1)
		case *ssa.Next:
			return walk(x.Iter, d+1)
		case *ssa.Range:
			return walk(x.X, d+1)
		case *ssa.Phi:
			for _, e := range x.Edges {
				if r := walk(e, d+1); r != "" {
					return r
				}
			}
		case *ssa.ChangeType:
			return walk(x.X, d+1)
		case *ssa.MakeInterface:
			return walk(x.X, d+1)
		case *ssa.TypeAssert:
			return walk(x.X, d+1)
		}
		return ""
	}
	for _, v := range vs {
		if r := walk(v, depth); r != "" {
			return r
		}
	}
	return ""
}

// fmtVerbs lists, per operand, the verb a format applies to it ("#v" for %#v; "*" operands are listed as "*").
func fmtVerbs(f string) []string {
	var out []string
	for i := 0; i < len(f); i++ {
		if f[i] != '%' {
			continue
		}
		i++
		if i < len(f) && f[i] == '%' {
			continue
		}
		sharp := false
		for i < len(f) && strings.ContainsRune("#+- 0123456789.*[]", rune(f[i])) {
			if f[i] == '#' {
				sharp = true
			}
			if f[i] == '*' {
				out = append(out, "*")
			}
			i++
		}
		if i < len(f) {
			v := string(f[i])
			if sharp {
				v = "#" + v
			}
			out = append(out, v)
		}
	}
	return out
}

// familyCycleObligations: a cycle of functions (A calls B calls ... calls A, static calls and the String()/Error()
// methods fmt calls for its operands) one of whose calls is made on the result of a relationship accessor. Links between
// individuals and families can be cyclic in a file, so such a recursion has no bound.
func familyCycleObligations(p *load.Prog, r *oblig.Run, rule string, fns []*ssa.Function) {
	in := map[*ssa.Function]bool{}
	for _, f := range fns {
		in[f] = true
	}
	type edge struct {
		to   *ssa.Function
		call ssa.CallInstruction
		vals []ssa.Value
	}
	edges := map[*ssa.Function][]edge{}
	stringer := func(t types.Type, name string) *ssa.Function {
		ms := p.SSA.MethodSets.MethodSet(t)
		for i := 0; i < ms.Len(); i++ {
			if ms.At(i).Obj().Name() == name {
				if m := p.SSA.MethodValue(ms.At(i)); m != nil && in[m] {
					return m
				}
			}
		}
		return nil
	}
	for _, f := range fns {
		for _, c := range su.Calls(f) {
			if _, isGo := c.(*ssa.Go); isGo {
				continue
			}
			cc := c.Common()
			cal := cc.StaticCallee()
			if cal != nil && in[cal] && cal != f {
				vals := append([]ssa.Value{}, cc.Args...)
				edges[f] = append(edges[f], edge{cal, c, vals})
				continue
			}
			if cal != nil && cal.Pkg != nil && cal.Pkg.Pkg.Path() == "fmt" {
				for _, a := range cc.Args {
					elems, ok := variadicElems(a)
					if !ok {
						continue
					}
					for _, e := range elems {
						if mi, isMI := e.(*ssa.MakeInterface); isMI {
							for _, name := range []string{"String", "Error"} {
								if m := stringer(mi.X.Type(), name); m != nil && m != f {
									edges[f] = append(edges[f], edge{m, c, []ssa.Value{mi.X}})
								}
							}
						}
					}
				}
			}
		}
	}
	// Tarjan
	index, low := map[*ssa.Function]int{}, map[*ssa.Function]int{}
	onStack := map[*ssa.Function]bool{}
	var stack []*ssa.Function
	comp := map[*ssa.Function]int{}
	size := map[int]int{}
	next, ncomp := 0, 0
	var strong func(v *ssa.Function)
	strong = func(v *ssa.Function) {
		next++
		index[v], low[v] = next, next
		stack = append(stack, v)
		onStack[v] = true
		for _, e := range edges[v] {
			if index[e.to] == 0 {
				strong(e.to)
				if low[e.to] < low[v] {
					low[v] = low[e.to]
				}
			} else if onStack[e.to] && index[e.to] < low[v] {
				low[v] = index[e.to]
			}
		}
		if low[v] == index[v] {
			ncomp++
			for {
				w := stack[len(stack)-1]
				stack = stack[:len(stack)-1]
				onStack[w] = false
				comp[w] = ncomp
				size[ncomp]++
				if w == v {
					break
				}
			}
		}
	}
	for _, f := range fns {
		if index[f] == 0 {
			strong(f)
		}
	}
	reported := map[int]bool{}
	cycles := 0
	for _, f := range fns {
		if size[comp[f]] < 2 {
			continue
		}
		for _, e := range edges[f] {
			if comp[e.to] != comp[f] || reported[comp[f]] {
				continue
			}
			if link := followsFamilyLink(e.vals, 0); link != "" {
				reported[comp[f]] = true
				cycles++
				var members []string
				for _, g := range fns {
					if comp[g] == comp[f] {
						members = append(members, load.FuncName(g))
					}
				}
				sort.Strings(members)
				if len(members) > 5 {
					members = append(members[:5], "...")
				}
				r.Add(rule, "recursion over family links through "+load.FuncName(f), p.Pos(e.call.Pos()), "cycle of functions").Fail(load.FuncName(f) + " calls " + load.FuncName(e.to) + " on the result of " + link + ", and " + load.FuncName(e.to) + " can lead back to it (cycle: " + strings.Join(members, ", ") + "): links between individuals and families can be cyclic in a file, so the recursion has no bound - a stack overflow, which no recover can stop")
			}
		}
	}
	r.Extra["function_cycles_over_family_links"] = cycles
}
