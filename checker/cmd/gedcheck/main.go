// gedcheck decides the given properties of elliotchance/gedcom by static
// analysis of /repo's current working tree (see /verif/DESIGN.md).
package main

import (
	"flag"
	"fmt"
	"os"
	"runtime/pprof"
	"sort"
	"time"

	"gedverif/internal/load"
	"gedverif/internal/oblig"
	"gedverif/internal/props"
)

type check struct {
	needSSA bool
	run     func(p *load.Prog, r *oblig.Run)
}

var checks = map[string]check{}

func init() {
	for id, c := range props.Registry {
		checks[id] = check{needSSA: true, run: c}
	}
}

func main() {
	prop := flag.String("prop", "", "property id (C01..C20)")
	tier := flag.String("tier", "quick", "quick|thorough")
	list := flag.Bool("list", false, "list implemented properties")
	debug := flag.String("debug", "", "debug query, e.g. reach:<pkgpath>:<func> or reach:<pkgpath>:<Type>.<method>")
	flag.Parse()
	if pf := os.Getenv("GEDCHECK_PROF"); pf != "" {
		f, _ := os.Create(pf)
		pprof.StartCPUProfile(f)
		go func() {
			time.Sleep(20 * time.Second)
			pprof.StopCPUProfile()
			f.Close()
			os.Exit(3)
		}()
	}
	if *debug != "" {
		props.Debug(*debug)
		return
	}
	if *list {
		ids := []string{}
		for id := range checks {
			ids = append(ids, id)
		}
		sort.Strings(ids)
		for _, id := range ids {
			fmt.Println(id)
		}
		return
	}
	if t := os.Getenv("VERIF_TIER"); t != "" && *tier == "" {
		*tier = t
	}
	c, ok := checks[*prop]
	if !ok {
		fmt.Printf("ANALYSIS-ERROR unknown property %q\n", *prop)
		os.Exit(2)
	}
	defer func() {
		if e := recover(); e != nil {
			fmt.Printf("ANALYSIS-ERROR analyser panic: %v\n", e)
			panic(e)
		}
	}()
	r := oblig.NewRun(*prop, *tier)
	p := load.Load(c.needSSA)
	r.Extra["packages"] = len(p.Pkgs)
	r.Extra["repo_functions_analysed"] = len(p.Repo)
	c.run(p, r)
	r.Finish()
}
