#!/bin/sh
# usage: trydiff.sh <patch> <prop> [<prop>...]  - applies a patch to /repo, runs the quick checks, reverts.
patch="$1"; shift
cd /repo || exit 2
if ! git diff --quiet; then echo "/repo has uncommitted changes"; exit 2; fi
git apply "$patch" || { echo "patch does not apply"; exit 3; }
for p in "$@"; do
  GEDCHECK_NO_EVIDENCE=1 /verif/check.sh "$p" quick > /tmp/trydiff.$p.out 2>&1
  rc=$?
  echo "== $p exit=$rc  $(grep -c '^VIOLATION' /tmp/trydiff.$p.out) violations, $(grep -c '^UNDECIDED\|^ANALYSIS' /tmp/trydiff.$p.out) undecided"
  grep -A3 '^VIOLATION' /tmp/trydiff.$p.out | grep -v '^VIOLATION\|^--' | head -12
  grep '^UNDECIDED\|^ANALYSIS' /tmp/trydiff.$p.out | head -5
done
git checkout -- . 
git status --short | head
