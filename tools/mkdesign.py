#!/usr/bin/env python3
"""Regenerates section 11 of DESIGN.md from tools/design11.md and the seed table."""
import subprocess
d = open('/verif/DESIGN.md').read()
marker = '\n---------------------------------------------------------------------------\n\n## 11. Implementation record (as built)'
i = d.find(marker)
if i >= 0:
    d = d[:i]
d = d.rstrip('\n') + '\n'
sec = open('/verif/tools/design11.md').read()
table = subprocess.run(['python3', '/verif/tools/seedtable.py'], stdout=subprocess.PIPE).stdout.decode()
sec = sec.replace('SEEDTABLE', table.strip())
rows = [l for l in table.splitlines() if l.startswith('| C')]
caught = sum(1 for l in rows if '| caught by' in l)
sec = sec.replace('SEEDCOUNT', '%d of %d' % (caught, len(rows)))
import os
aud = open('/verif/tools/audit.md').read().strip() if os.path.exists('/verif/tools/audit.md') else 'The audit was still running when this was committed.'
sec = sec.replace('AUDITRESULT', aud)
res = open('/verif/refactorings/RESULT.txt').read() if os.path.exists('/verif/refactorings/RESULT.txt') else ''
sec = sec.replace('REFCOUNT', 'refactorings/RESULT.txt: %d of %d silent in the last run' % (res.count('SILENT'), res.count('.diff')))
open('/verif/DESIGN.md', 'w').write(d + sec)
print('DESIGN.md section 11 regenerated')
