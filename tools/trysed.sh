#!/bin/sh
# usage: trysed.sh <file> <sed expr> <prop>...   - one-line mutation of a scratch copy, build check, analyse
f="$1"; ex="$2"; shift; shift
tmp=$(mktemp -d /tmp/trysed.XXXXXX)
rsync -a --exclude .git /repo/ "$tmp/" || exit 2
sed -i "$ex" "$tmp/$f"
(cd "$tmp" && diff -u /repo/$f $f | grep '^[-+]' | grep -v '^---\|^+++' | cut -c1-160)
export GOFLAGS=-mod=mod GOPROXY=off GOSUMDB=off GOTOOLCHAIN=local GOWORK=off GEDCHECK_NO_EVIDENCE=1
(cd "$tmp" && go build ./... ) || { echo "DOES NOT BUILD"; rm -rf "$tmp"; exit 3; }
for p in "$@"; do
  GEDCOM_REPO="$tmp" VERIF_REPLAY_DIR="$tmp/.replay" "${GEDCHECK_BIN:-/verif/bin/gedcheck}" -prop "$p" -tier quick > "$tmp/out" 2>&1
  rc=$?
  echo "== $p exit=$rc  $(grep -c '^VIOLATION' "$tmp/out") violations, $(grep -c '^UNDECIDED\|^ANALYSIS' "$tmp/out") undecided"
  grep -A1 '^VIOLATION' "$tmp/out" | grep -v '^VIOLATION\|^--' | cut -c1-200 | head -4
  grep '^UNDECIDED\|^ANALYSIS' "$tmp/out" | head -3
done
rm -rf "$tmp"
