#!/usr/bin/env python3
"""Generates /verif/MANIFEST.json from the table below (kept in one place so the
manifest stays valid and in step with what gedcheck implements)."""
import json, os, subprocess
here = os.path.dirname(os.path.dirname(os.path.abspath(__file__)))
CLAIMED = json.load(open(os.path.join(here, "tools", "claims.json")))
props = [json.loads(l) for l in open(os.path.join(here, "properties.jsonl"))]
checks, na = [], []
for p in props:
    pid = p["id"]
    c = CLAIMED.get(pid)
    if not c or c.get("not_applicable"):
        na.append({"property_id": pid, "reason": (c or {}).get("not_applicable", "no check built yet (see DESIGN.md section 4 for the planned rule)")})
        continue
    checks.append({
        "property_id": pid,
        "quick_cmd": "./check.sh %s quick" % pid,
        "thorough_cmd": "./check.sh %s thorough" % pid,
        "evidence_file": "/verif/evidence/%s.json" % pid,
        "replay_cmd_template": "cat {path}",
        "engine": c["engine"],
        "level_claimed": {"category": "other", "text": c["text"], "design_ref": c["design_ref"]},
        "level_note": c["note"],
        "technique": c["technique"],
    })
m = {
    "version": 1,
    "setup_cmd": "cd /verif/checker && GOFLAGS=-mod=mod GOPROXY=off GOSUMDB=off GOTOOLCHAIN=local GOWORK=off go build -o /verif/bin/gedcheck ./cmd/gedcheck",
    "hooks": {
        "guard": "verif",
        "enable": "none needed: the checks are static analyses of /repo's sources; no instrumentation is compiled into the repository",
        "baseline_off_cmd": "cd /repo && GOFLAGS=-mod=mod go test -vet=off -count=1 ./...",
        "source_commits": [],
        "add_only": True,
    },
    "engines": [
        {"name": "gedcheck", "path": "/verif/checker", "serves_properties": [c["property_id"] for c in checks],
         "kind_free_text": "repository-specific static analyser over go/packages + go/ssa + call graph (x/tools v0.29.0): constant-table/finite-model extraction, taint, effect/provenance, may-panic sites, CFG path rules"},
    ],
    "checks": checks,
    "not_applicable": na,
    "notes": "All checks are static analyses (no repository code is executed). Known genuine defects are listed in /verif/known_findings.json; fix: commits in /repo are recorded there under 'fixed'.",
}
json.dump(m, open(os.path.join(here, "MANIFEST.json"), "w"), indent=1)
print("claimed", [c["property_id"] for c in checks], "n/a", [n["property_id"] for n in na])
