#!/bin/sh
# usage: confirm.sh <PROP>   - confirms /tmp/wt/<PROP>/out/change{1,2,3} in parallel as seeds <PROP>-<n>.., then runs the checks on scratch copies
P="$1"; out=/tmp/wt/$P/out
n=$(/verif/tools/nextid.sh $P); ids=""
for i in 1 2 3 4; do
  [ -f $out/change$i.diff ] || continue
  id="$P-$n"; n=$((n+1)); ids="$ids,$id"
  python3 /verif/tools/seedeval.py $out $i $id > /tmp/confirm-$id.log 2>&1 &
done
wait
ids=${ids#,}
for id in $(echo $ids | tr , ' '); do grep -h '"status"' /tmp/confirm-$id.log | sed "s/^/$id /"; done
python3 /verif/tools/reseed.py --only $ids --jobs 4 2>&1 | tail -6
