#!/usr/bin/env python3
"""Thorough-tier sensitivity self-test of one property's check.

Every kept seeded change (/verif/seeded/<id>/patch.diff) whose meta.json says
this property's check detects it is applied to a scratch copy of /repo's
CURRENT working tree (fresh temporary directory outside /repo and /verif,
removed afterwards); the check analyses the copy (GEDCOM_REPO=<copy>; nothing
from the copy is executed) and must report a violation. Lines printed:

  SELFTEST property=<id> seed=<seed> detected|MISSED|skipped(<reason>)

The result is added to /verif/evidence/<id>.json under coverage.selftest.
A MISSED line means the analyser lost sensitivity on this tree; it does not
change the check's verdict about /repo (no VIOLATION line, exit code 0).

usage: selftest.py <property id> [jobs]
"""
import json, os, glob, shutil, subprocess, sys, tempfile, concurrent.futures

ENV = dict(os.environ, GOFLAGS="-mod=mod", GOPROXY="off", GOSUMDB="off", GOTOOLCHAIN="local", GOWORK="off", GEDCHECK_NO_EVIDENCE="1")
ENV.pop("GEDCHECK_GOARCH", None)


def sh(cmd, cwd, env=ENV, timeout=1800):
    p = subprocess.run(cmd, cwd=cwd, shell=True, env=env, stdout=subprocess.PIPE, stderr=subprocess.STDOUT, timeout=timeout)
    return p.returncode, p.stdout.decode(errors="replace")


def one(prop, d):
    sid = os.path.basename(d)
    tmp = tempfile.mkdtemp(prefix="selftest-%s-" % sid)
    try:
        rc, o = sh("rsync -a --exclude .git /repo/ %s/" % tmp, "/")
        if rc != 0:
            return sid, "skipped(cannot copy the tree)", ""
        rc, o = sh("git apply --whitespace=nowarn %s" % os.path.join(d, "patch.diff"), tmp)
        if rc != 0:
            return sid, "skipped(patch does not apply to the current tree)", ""
        env = dict(ENV, GEDCOM_REPO=tmp, VERIF_REPLAY_DIR=os.path.join(tmp, ".replay"))
        rc, out = sh("/verif/bin/gedcheck -prop %s -tier quick" % prop, "/verif", env=env)
        first = [l.strip() for l in out.splitlines() if l.startswith("  rule=")][:1]
        if rc == 1:
            return sid, "detected", (first[0] if first else "")
        return sid, "MISSED", "exit %d" % rc
    finally:
        shutil.rmtree(tmp, ignore_errors=True)


def main():
    prop = sys.argv[1]
    jobs = int(sys.argv[2]) if len(sys.argv) > 2 else 6
    seeds = []
    for d in sorted(glob.glob("/verif/seeded/*")):
        m = os.path.join(d, "meta.json")
        if os.path.exists(m) and os.path.exists(os.path.join(d, "patch.diff")):
            if prop in (json.load(open(m)).get("detected_by") or []):
                seeds.append(d)
    res = []
    with concurrent.futures.ThreadPoolExecutor(max_workers=jobs) as ex:
        for sid, verdict, detail in ex.map(lambda d: one(prop, d), seeds):
            print("SELFTEST property=%s seed=%s %s %s" % (prop, sid, verdict, detail))
            res.append({"seed": sid, "verdict": verdict, "detail": detail})
    ev = "/verif/evidence/%s.json" % prop
    if os.path.exists(ev) and os.environ.get("GEDCHECK_NO_EVIDENCE", "") == "":
        j = json.load(open(ev))
        j.setdefault("coverage", {})["selftest"] = {
            "what": "kept seeded changes this check is recorded to detect, re-applied to a scratch copy of the current tree and re-analysed",
            "seeds": res,
            "detected": sum(1 for r in res if r["verdict"] == "detected"),
            "missed": sum(1 for r in res if r["verdict"] == "MISSED"),
            "skipped": sum(1 for r in res if r["verdict"].startswith("skipped")),
        }
        json.dump(j, open(ev, "w"), indent=1)


main()
