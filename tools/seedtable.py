#!/usr/bin/env python3
"""Prints the markdown table of seeded changes (from /verif/seeded/*/meta.json)."""
import json, glob, os, re
rows = []
for d in sorted(glob.glob('/verif/seeded/*'), key=lambda s: (s.split('/')[-1].split('-')[0], s)):
    m = os.path.join(d, 'meta.json')
    if not os.path.exists(m):
        continue
    j = json.load(open(m))
    sid = j.get('seed')
    summ = (j.get('summary') or '').replace('\n', ' ').replace('|', '/')
    summ = re.sub(r'\s+', ' ', summ)
    if len(summ) > 170:
        summ = summ[:167] + '...'
    det = j.get('detected_by') or []
    first = ''
    for p in det:
        f = j['checks'][p].get('first') or []
        if f:
            mm = re.search(r'rule=(\S+)', f[0])
            first = mm.group(1) if mm else ''
            break
    und = [p for p, c in (j.get('checks') or {}).items() if c.get('exit') == 2]
    verdict = ('caught by ' + ','.join(det) + (' (' + first + ')' if first else '')) if det else ('undecided (exit 2) in ' + ','.join(und) if und else 'missed')
    if j.get('note'):
        verdict += ' - ' + j['note']
    rows.append('| %s | %s | %s |' % (sid, summ, verdict))
print('| seed | change | verdict of the registered checks |')
print('|---|---|---|')
print('\n'.join(rows))
