#!/usr/bin/env python3
"""Confirms a seeded change produced by an independent sub-agent and runs the
registered checks against it.

usage: seedeval.py <agent out dir> <index> <seed id> [<property to check> ...]

Steps (all in a scratch worktree of /repo's HEAD under /tmp, removed afterwards):
  1. the patch applies, `go build ./...` succeeds, the whole test-suite passes;
  2. the demonstration fails with the patch and passes without it;
then the patch is applied to /repo itself, the quick checks are run, and the
patch is reverted (git checkout -- .). Results go to /verif/seeded/<seed id>/.
"""
import json, os, shutil, subprocess, sys, glob

ENV = dict(os.environ, GOFLAGS="-mod=mod", GOPROXY="off", GOSUMDB="off", GOTOOLCHAIN="local", GOWORK="off")


def run(cmd, cwd, timeout=600):
    p = subprocess.run(cmd, cwd=cwd, shell=True, env=ENV, stdout=subprocess.PIPE, stderr=subprocess.STDOUT, timeout=timeout)
    return p.returncode, p.stdout.decode(errors="replace")


def main():
    out, idx, sid = sys.argv[1], sys.argv[2], sys.argv[3]
    props = sys.argv[4:]
    patch = os.path.join(out, "change%s.diff" % idx)
    meta = json.load(open(os.path.join(out, "meta%s.json" % idx)))
    demos = glob.glob(os.path.join(out, "demo%s_test.go" % idx)) + glob.glob(os.path.join(out, "demo%s" % idx))
    if not demos:
        print("no demo found"); sys.exit(2)
    demo = demos[0]
    wt = "/tmp/sv-%s" % sid
    run("git -C /repo worktree remove --force %s" % wt, "/")
    rc, o = run("git -C /repo worktree add -q --detach %s HEAD" % wt, "/")
    if rc != 0:
        print(o); sys.exit(2)
    res = {"seed": sid, "property": meta.get("property"), "summary": meta.get("summary"), "needs_to_manifest": meta.get("needs_to_manifest"),
           "files_changed": meta.get("files_changed"), "demo_place": meta.get("demo_place"), "demo_run": meta.get("demo_run")}
    try:
        rc, o = run("git apply %s" % patch, wt)
        res["applies"] = rc == 0
        if rc != 0:
            print("PATCH DOES NOT APPLY:", o); res["status"] = "does-not-apply"; return finish(res, sid, patch, demo, props, False)
        rc, o = run("go build ./...", wt)
        res["builds"] = rc == 0
        rc2, o2 = run("go test -vet=off -count=1 ./...", wt)
        res["suite_passes_with_change"] = rc2 == 0
        if rc != 0 or rc2 != 0:
            print("BUILD/SUITE FAILS WITH CHANGE:\n", (o + o2)[-1500:]); res["status"] = "suite-fails"; return finish(res, sid, patch, demo, props, False)
        # place demo
        place = os.path.join(wt, meta.get("demo_place", ".") or ".")
        os.makedirs(place, exist_ok=True)
        if os.path.isdir(demo):
            dst = os.path.join(place, os.path.basename(demo))
            shutil.copytree(demo, dst)
        else:
            dst = os.path.join(place, os.path.basename(demo))
            shutil.copy(demo, dst)
        cmd = meta.get("demo_run")
        rc, o = run(cmd, wt, timeout=900)
        res["demo_fails_with_change"] = rc != 0
        res["demo_output_with_change"] = o[-800:]
        run("git apply -R %s" % patch, wt)
        rc, o = run(cmd, wt, timeout=900)
        res["demo_passes_without_change"] = rc == 0
        ok = res["demo_fails_with_change"] and res["demo_passes_without_change"]
        res["status"] = "confirmed" if ok else "demo-not-discriminating"
        if not ok:
            print("DEMO NOT DISCRIMINATING; without change:\n", o[-800:])
        return finish(res, sid, patch, demo, props, ok)
    finally:
        run("git -C /repo worktree remove --force %s" % wt, "/")
        run("go clean -testcache", "/repo")


def finish(res, sid, patch, demo, props, confirmed):
    checks = {}
    if confirmed and props:
        rc, o = run("git diff --quiet", "/repo")
        if rc != 0:
            print("/repo dirty; not running checks"); sys.exit(2)
        rc, o = run("git apply %s" % patch, "/repo")
        try:
            for p in props:
                rc, o = run("GEDCHECK_NO_EVIDENCE=1 /verif/check.sh %s quick" % p, "/verif")
                viol = [l for l in o.splitlines() if l.startswith("VIOLATION")]
                det = [l.strip() for l in o.splitlines() if l.startswith("  rule=")]
                checks[p] = {"exit": rc, "violations": len(viol), "first": det[:3],
                             "undecided": [l for l in o.splitlines() if l.startswith("UNDECIDED") or l.startswith("ANALYSIS")][:3]}
        finally:
            run("git checkout -- .", "/repo")
    res["checks"] = checks
    res["detected_by"] = [p for p, c in checks.items() if c["exit"] == 1]
    d = "/verif/seeded/%s" % sid
    if confirmed:
        os.makedirs(d, exist_ok=True)
        shutil.copy(patch, os.path.join(d, "patch.diff"))
        if os.path.isdir(demo):
            if os.path.exists(os.path.join(d, "demo")):
                shutil.rmtree(os.path.join(d, "demo"))
            shutil.copytree(demo, os.path.join(d, "demo"))
        else:
            shutil.copy(demo, os.path.join(d, os.path.basename(demo) + ".txt"))
        res["what_i_ran"] = "tools/seedeval.py: scratch worktree of /repo HEAD: git apply; go build ./...; go test -vet=off -count=1 ./...; demo with and without the change; then git -C /repo apply, ./check.sh <prop> quick for " + ",".join(props) + ", git -C /repo checkout -- ."
        json.dump(res, open(os.path.join(d, "meta.json"), "w"), indent=1)
    print(json.dumps({k: res.get(k) for k in ["seed", "status", "summary", "detected_by"]}, indent=1))
    for p, c in checks.items():
        print(" ", p, "exit", c["exit"], "violations", c["violations"], c["first"][:2], c["undecided"][:2])


main()
