#!/usr/bin/env python3
"""Runs every registered quick check against behaviour-preserving refactorings.

usage: refcheck.py <dir with refactor*.diff> [jobs]

Each diff is applied to a scratch copy of /repo's current tree (temporary
directory, removed afterwards); all claimed checks analyse the copy
(GEDCOM_REPO). Any exit code other than 0 is printed with the first report:
on equivalent code that is a false alarm (or an 'undecided') of the machinery.
"""
import json, os, glob, shutil, subprocess, sys, tempfile, concurrent.futures

ENV = dict(os.environ, GOFLAGS="-mod=mod", GOPROXY="off", GOSUMDB="off", GOTOOLCHAIN="local", GOWORK="off", GEDCHECK_NO_EVIDENCE="1")
PROPS = [c["property_id"] for c in json.load(open("/verif/MANIFEST.json"))["checks"]]
if os.environ.get("REFCHECK_PROPS"):
    PROPS = os.environ["REFCHECK_PROPS"].split(",")


def sh(cmd, cwd, env=ENV, timeout=3600):
    p = subprocess.run(cmd, cwd=cwd, shell=True, env=env, stdout=subprocess.PIPE, stderr=subprocess.STDOUT, timeout=timeout)
    return p.returncode, p.stdout.decode(errors="replace")


def one(diff):
    name = os.path.basename(diff)
    tmp = tempfile.mkdtemp(prefix="refcheck-")
    out = []
    try:
        sh("rsync -a --exclude .git --exclude out /repo/ %s/" % tmp, "/")
        rc, o = sh("git apply --whitespace=nowarn %s" % diff, tmp)
        if rc != 0:
            return name, ["does not apply: " + o.strip()[:200]]
        rc, o = sh("go build ./...", tmp)
        if rc != 0:
            return name, ["does not build: " + o.strip()[:200]]
        for p in PROPS:
            env = dict(ENV, GEDCOM_REPO=tmp, VERIF_REPLAY_DIR=os.path.join(tmp, ".replay"))
            rc, o = sh("%s -prop %s -tier quick" % (os.environ.get("GEDCHECK_BIN", "/verif/bin/gedcheck"), p), "/verif", env=env)
            if rc != 0:
                first = [l.strip() for l in o.splitlines() if l.startswith("  rule=") or l.startswith("UNDECIDED") or l.startswith("ANALYSIS")][:3]
                out.append("%s exit %d: %s" % (p, rc, " || ".join(first)[:600]))
        return name, out
    finally:
        shutil.rmtree(tmp, ignore_errors=True)


def main():
    d = sys.argv[1]
    jobs = int(sys.argv[2]) if len(sys.argv) > 2 else 6
    diffs = sorted(glob.glob(os.path.join(d, "refactor*.diff")))
    if not os.environ.get("GEDCHECK_BIN"):
        sh("./check.sh C12 quick", "/verif")
    with concurrent.futures.ThreadPoolExecutor(max_workers=jobs) as ex:
        for name, out in ex.map(one, diffs):
            print(name, "SILENT" if not out else "")
            for l in out:
                print("   ", l)


main()
