#!/usr/bin/env python3
"""Re-runs the registered quick checks against every kept seeded change.

For each /verif/seeded/<id>/patch.diff: a scratch copy of /repo's current
working tree is made under a fresh temporary directory (outside /repo and
/verif), the patch is applied there, the checks named in the seed's meta.json
(or given with --props) analyse that copy (GEDCOM_REPO=<copy>), and the copy is
removed. meta.json gets the fresh verdicts ("checks", "detected_by",
"applies_to_current_tree"). Nothing is executed from the copy; /repo is not touched.

usage: reseed.py [--only ID[,ID...]] [--jobs N] [--extra ID=PROP[,PROP]]
"""
import json, os, glob, shutil, subprocess, sys, tempfile, concurrent.futures

ENV = dict(os.environ, GOFLAGS="-mod=mod", GOPROXY="off", GOSUMDB="off", GOTOOLCHAIN="local", GOWORK="off", GEDCHECK_NO_EVIDENCE="1")


def sh(cmd, cwd, env=ENV, timeout=1800):
    p = subprocess.run(cmd, cwd=cwd, shell=True, env=env, stdout=subprocess.PIPE, stderr=subprocess.STDOUT, timeout=timeout)
    return p.returncode, p.stdout.decode(errors="replace")


def one(d, extra):
    sid = os.path.basename(d)
    mpath = os.path.join(d, "meta.json")
    meta = json.load(open(mpath))
    props = list((meta.get("checks") or {}).keys()) or [meta.get("property") or sid.split("-")[0]]
    for p in extra.get(sid, []):
        if p not in props:
            props.append(p)
    tmp = tempfile.mkdtemp(prefix="reseed-%s-" % sid)
    try:
        rc, o = sh("rsync -a --exclude .git /repo/ %s/" % tmp, "/")
        if rc != 0:
            return sid, None, "rsync failed: " + o
        rc, o = sh("git apply --whitespace=nowarn %s" % os.path.join(d, "patch.diff"), tmp)
        meta["applies_to_current_tree"] = rc == 0
        checks = {}
        if rc == 0:
            for p in props:
                env = dict(ENV, GEDCOM_REPO=tmp, VERIF_REPLAY_DIR=os.path.join(tmp, ".replay"))
                rc2, out = sh("/verif/bin/gedcheck -prop %s -tier quick" % p, "/verif", env=env)
                viol = [l for l in out.splitlines() if l.startswith("VIOLATION")]
                det = [l.strip() for l in out.splitlines() if l.startswith("  rule=")]
                checks[p] = {"exit": rc2, "violations": len(viol), "first": det[:3],
                             "undecided": [l for l in out.splitlines() if l.startswith("UNDECIDED") or l.startswith("ANALYSIS")][:3]}
            meta["checks"] = checks
            meta["detected_by"] = [p for p, c in checks.items() if c["exit"] == 1]
        json.dump(meta, open(mpath, "w"), indent=1)
        return sid, meta.get("detected_by"), ("" if rc == 0 else "patch no longer applies")
    finally:
        shutil.rmtree(tmp, ignore_errors=True)


def main():
    only, jobs, extra = None, 6, {}
    if os.path.exists("/verif/tools/extras.txt"):
        for l in open("/verif/tools/extras.txt"):
            l = l.strip()
            if l and not l.startswith("#"):
                k, v = l.split("=")
                extra.setdefault(k, []).extend(v.split(","))
    a = sys.argv[1:]
    while a:
        if a[0] == "--only":
            only = set(a[1].split(",")); a = a[2:]
        elif a[0] == "--jobs":
            jobs = int(a[1]); a = a[2:]
        elif a[0] == "--extra":
            k, v = a[1].split("="); extra.setdefault(k, []).extend(v.split(",")); a = a[2:]
        else:
            print(__doc__); sys.exit(2)
    rc, o = sh("./check.sh C12 quick", "/verif")  # makes sure bin/gedcheck is current
    ds = [d for d in sorted(glob.glob("/verif/seeded/*")) if os.path.exists(os.path.join(d, "patch.diff")) and (only is None or os.path.basename(d) in only)]
    with concurrent.futures.ThreadPoolExecutor(max_workers=jobs) as ex:
        for sid, det, note in ex.map(lambda d: one(d, extra), ds):
            print(sid, "detected_by", det, note)


main()
