#!/bin/sh
# usage: tryseed.sh <seed id | patch file> <prop> [<prop>...]
# applies the patch to a scratch copy of /repo's current tree, runs the quick checks of the
# named properties on the copy (binary: $GEDCHECK_BIN or /verif/bin/gedcheck), removes the copy.
s="$1"; shift
[ -f "$s" ] && patch="$s" || patch="/verif/seeded/$s/patch.diff"
tmp=$(mktemp -d /tmp/tryseed.XXXXXX)
rsync -a --exclude .git /repo/ "$tmp/" || exit 2
(cd "$tmp" && git apply --whitespace=nowarn "$patch") || { echo "patch does not apply"; rm -rf "$tmp"; exit 3; }
export GOFLAGS=-mod=mod GOPROXY=off GOSUMDB=off GOTOOLCHAIN=local GOWORK=off GEDCHECK_NO_EVIDENCE=1
for p in "$@"; do
  GEDCOM_REPO="$tmp" VERIF_REPLAY_DIR="$tmp/.replay" "${GEDCHECK_BIN:-/verif/bin/gedcheck}" -prop "$p" -tier quick > "$tmp/out" 2>&1
  rc=$?
  echo "== $s $p exit=$rc  $(grep -c '^VIOLATION' "$tmp/out") violations, $(grep -c '^UNDECIDED\|^ANALYSIS' "$tmp/out") undecided"
  grep -A3 '^VIOLATION' "$tmp/out" | grep -v '^VIOLATION\|^--' | cut -c1-400 | head -${TRYSEED_LINES:-9}
  grep '^UNDECIDED\|^ANALYSIS' "$tmp/out" | head -5
done
rm -rf "$tmp"
