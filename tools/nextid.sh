#!/bin/sh
# prints the next free seed number for a property: nextid.sh C05 -> 9
ls /verif/seeded | grep "^$1-" | sed "s/^$1-//" | sort -n | tail -1 | awk '{print $1+1}'
