#!/usr/bin/env python3
"""Writes the prompt given to an independent bug-seeding sub-agent for one property.
The prompt contains only the property text and the path of a scratch worktree."""
import json, sys
props = {json.loads(l)['id']: json.loads(l) for l in open('/verif/properties.jsonl')}
T = '''You are helping to test a verification framework for the Go library elliotchance/gedcom (GEDCOM genealogy files: decoder/encoder, dates, diff/merge, query language, HTML publishing). You act as an independent "bug seeder".

Work ONLY inside the git worktree at {wt} (a checkout of the repository at its current HEAD). Do NOT read or write anything under /verif or /repo. Do NOT use `git stash` (the stash is shared by all worktrees of the repository; other seeders work concurrently) - keep a change with `git diff > file` and `git checkout -- .` instead. The sandbox has no network. Every shell command needs: export GOFLAGS=-mod=mod GOPROXY=off GOSUMDB=off GOTOOLCHAIN=local
The existing test suite is run with: go test -vet=off -count=1 ./...   (it passes now; takes a few seconds).

THE PROPERTY ({pid}: {title})
Statement: {statement}
Quantifier: {quant}
Why the existing tests cannot settle it: {why}
Code anchors (where the mechanism lives): {anchors}

YOUR TASK
Produce {n} independent, realistic changes to the library SOURCE (not to tests) that each BREAK this property while the repository still compiles and the ENTIRE existing test suite still passes. Each must be the kind of subtle regression a developer could plausibly introduce (a refactor gone slightly wrong, an off-by-one, a dropped call, swapped arguments, a wrong or missing condition, a removed guard, a helper reused where it should not be) and it must need something specific to manifest - an unusual input, a multi-step sequence of operations, a particular interleaving, a fault at a particular point, or two cooperating sites that each look fine alone - rather than something ordinary use would expose at once. Make the changes different from each other in kind and in location, and keep each small (a few lines). Do not merely re-introduce an issue the property text says exists "today" if the current code already has it; check the current code first (some of those issues have been repaired already in this checkout; re-introducing a repaired one in a different way is acceptable if realistic).

For each change i = 1..{n} write, under {wt}/out/ (create it; it is untracked):
 - change<i>.diff : the output of `git diff` for that change alone against HEAD (source files only, must apply with `git apply` at the repo root).
 - a demonstration: demo<i>_test.go (a Go test file that can be dropped into the right package directory of the repo) or demo<i>/main.go, which FAILS (test failure, panic, wrong output, or race report with -race) with the change applied and PASSES on unchanged HEAD. Put a header comment saying where the file goes and how to run it.
 - meta<i>.json : {{"property": "{pid}", "summary": "...", "needs_to_manifest": "...", "files_changed": ["..."], "demo_place": "<directory relative to repo root where the demo file must be copied>", "demo_run": "<exact command to run it from the repo root>"}}

Verify each yourself: with the change applied `go build ./...` succeeds, `go test -vet=off -count=1 ./...` passes completely (without the demo file present), and the demo fails; with the change reverted the demo passes. At the end leave the worktree clean at HEAD (git checkout -- . ; delete demo files you copied into the tree) - only the untracked out/ directory stays.

Finish with a short report (a few lines per change: what it is, where, what it needs to manifest).'''
pid = sys.argv[1]
n = int(sys.argv[2]) if len(sys.argv) > 2 else 3
p = props[pid]
print(T.format(wt='/tmp/wt/' + pid, pid=pid, title=p['title'], statement=p['statement'], quant=p['quantifier']['text'],
               why=p['why_tests_cant'], anchors=json.dumps(p['anchors']['mechanism']), n=n))
