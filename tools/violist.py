#!/usr/bin/env python3
"""Lists violations from check outputs with their source lines (triage aid)."""
import re,sys
seen=set()
for fn in sys.argv[1:]:
    out=open(fn).read()
    for m in re.finditer(r'rule=(\S+) key="([^"]+)" at (\S+):(\d+):(\d+)', out):
        rule,key,f,l,c=m.groups()
        if key in seen: continue
        seen.add(key)
        try:
            src=open('/repo/'+f).read().split('\n')[int(l)-1].strip()
        except Exception:
            src='?'
        print("%s:%s  %s\n      | %s" % (f,l,key,src[:160]))
