#!/bin/sh
# usage: check.sh <property id> <quick|thorough>
# Rebuilds the analyser from /verif/checker (cached) and decides the property
# on /repo's current working tree. Exit 0 holds / 1 VIOLATION / 2 could not analyse.
cd "$(dirname "$0")" || exit 2
export GOFLAGS=-mod=mod GOPROXY=off GOSUMDB=off GOTOOLCHAIN=local GOWORK=off
mkdir -p bin
# build to a private name and rename: several checks may run at once
(cd checker && go build -o "../bin/gedcheck.$$" ./cmd/gedcheck && mv -f "../bin/gedcheck.$$" ../bin/gedcheck) || { rm -f "bin/gedcheck.$$"; echo "ANALYSIS-ERROR cannot build gedcheck"; exit 2; }
tier="${2:-${VERIF_TIER:-quick}}"
if [ "$tier" = thorough ]; then
  # 1. the rules over the CHA-resolved call graph as well (superset of VTA's edges)
  bin/gedcheck -prop "$1" -tier thorough
  rc=$?
  # 2. may-panic properties: the compiler's bounds-check proofs differ with the int width; repeat for GOARCH=386
  case "$1" in C03|C14|C15)
    if [ $rc -eq 0 ]; then
      echo "--- configuration GOARCH=386"
      GEDCHECK_GOARCH=386 GEDCHECK_NO_EVIDENCE=1 bin/gedcheck -prop "$1" -tier quick
      rc=$?
    fi;;
  esac
  # 3. sensitivity self-test: the kept seeded changes this check detects, on scratch copies of the current tree
  echo "--- self-test (seeded changes on scratch copies of the current tree)"
  python3 tools/selftest.py "$1" 6
  exit $rc
fi
exec bin/gedcheck -prop "$1" -tier quick
