#!/bin/sh
# usage: check.sh <property id> <quick|thorough>
# Rebuilds the analyser from /verif/checker (cached) and decides the property
# on /repo's current working tree. Exit 0 holds / 1 VIOLATION / 2 could not analyse.
cd "$(dirname "$0")" || exit 2
export GOFLAGS=-mod=mod GOPROXY=off GOSUMDB=off GOTOOLCHAIN=local GOWORK=off
mkdir -p bin
# build to a private name and rename: several checks may run at once
(cd checker && go build -o "../bin/gedcheck.$$" ./cmd/gedcheck && mv -f "../bin/gedcheck.$$" ../bin/gedcheck) || { rm -f "bin/gedcheck.$$"; echo "ANALYSIS-ERROR cannot build gedcheck"; exit 2; }
tier="${2:-${VERIF_TIER:-quick}}"
if [ "$tier" = thorough ]; then
  exec bin/gedcheck -prop "$1" -tier thorough
fi
exec bin/gedcheck -prop "$1" -tier quick
